"""Fact loading and shared static analyses over the yfacts JSON dumps.

Nothing in here looks at source text to decide anything; spans are only used for reports.
"""
import json
import os
import re as _re
from collections import defaultdict, deque


class Crate:
    def __init__(self, path):
        with open(path) as fh:
            d = json.load(fh)
        self.raw = d
        self.name = d['crate']
        self.types = d['types']
        self.files = d['files']
        self.cfg = d['cfg']
        self.adts = {a['path']: a for a in d['adts']}
        self.impls = d['impls']
        self.consts = {c['path']: c for c in d['consts']}
        self.const_tables = {c['path']: c['tree'] for c in d['const_tables']}
        self.fns = {}
        for f in d['fns']:
            fn = Fn(self, f)
            self.fns[fn.path] = fn
        self.dissolved = []
        self.inlined_into = {}     # helper path -> functions it was spliced into (callers that no longer show a call)
        if self.name == 'yarel':
            kp = os.path.join(os.path.dirname(os.path.abspath(__file__)), 'tables', 'known_fns.json')
            if os.path.exists(kp):
                with open(kp) as fh:
                    self.dissolved = inline_new_helpers(self, set(json.load(fh)))

    # ---- types -------------------------------------------------------------------------------
    def ty(self, tid):
        return self.types[tid]

    def tstr(self, tid):
        return self.types[tid]['s']

    def ty_walk(self, tid, seen=None):
        """yield every type term reachable from tid through generic args / pointers / tuples"""
        if seen is None:
            seen = set()
        if tid in seen:
            return
        seen.add(tid)
        t = self.types[tid]
        yield tid, t
        for a in t.get('a', []):
            yield from self.ty_walk(a, seen)
        if 't' in t:
            yield from self.ty_walk(t['t'], seen)

    def ty_mentions(self, tid, names):
        """True if the type term mentions an ADT whose path is in names"""
        for _, t in self.ty_walk(tid):
            if t['k'] == 'adt' and t['n'] in names:
                return True
        return False

    def adt_name(self, tid):
        t = self.types[tid]
        return t['n'] if t['k'] == 'adt' else None

    def peel_refs(self, tid):
        t = self.types[tid]
        while t['k'] in ('ref',):
            tid = t['t']
            t = self.types[tid]
        return tid


class Fn:
    def __init__(self, crate, raw):
        self.crate = crate
        self.raw = raw
        self.path = raw['path']
        self.name = raw.get('name', '')
        self.kind = raw['kind']
        self.blocks = raw['blocks']
        self.locals = raw['locals']
        self.argc = raw['argc']
        self.file = crate.files[raw['file']]
        self.line = raw['line']
        self.parent = raw.get('parent')
        self.impl_trait = raw.get('impl_trait')
        self.impl_self = raw.get('impl_self')
        self.vis = raw.get('vis')
        self.unsafe = raw.get('unsafe', False)
        self._succ = None
        self._pred = None

    def promoted_consts(self):
        """index -> list of constant strings/values built in promoted[index]"""
        out = {}
        for i, pb in enumerate(self.raw.get('promoted', [])):
            vals = []
            for b in pb['blocks']:
                for s in b['s']:
                    k = (s.get('r', {}).get('o') or {}).get('k') if isinstance(s.get('r', {}).get('o'), dict) else None
                    if k is not None:
                        vals.append(k.get('s', k.get('v')))
            out[i] = vals
        return out

    def operand_strings(self, org, o):
        """string constants an operand may denote (directly, or through a reference to a promoted constant)"""
        out = set()
        k = op_const(o)
        if k is not None and 's' in k:
            out.add(k['s'])
        pl = op_place(o)
        if pl is not None:
            for q in org.get(pl['l'], ()):
                if q[0][0] == 'const' and isinstance(q[0][1], str):
                    if 'promoted[' in q[0][1]:
                        i = int(q[0][1].split('promoted[')[1].split(']')[0])
                        out |= {v for v in self.promoted_consts().get(i, []) if isinstance(v, str)}
                    else:
                        out.add(q[0][1])
        return out

    def loc(self, sp=None):
        if sp is None:
            return '%s:%d' % (self.file, self.line)
        if isinstance(sp, list):
            return '%s:%d' % (self.crate.files[sp[2]], sp[0])
        return '%s:%d' % (self.file, sp)

    def local_ty(self, l):
        return self.locals[l]['t']

    def local_name(self, l):
        return self.locals[l].get('n', '_%d' % l)

    # ---- CFG ---------------------------------------------------------------------------------
    def succ(self, bi, unwind=False):
        t = self.blocks[bi]['t']
        k = t['t']
        out = []
        if k == 'goto':
            out = [t['to']]
        elif k == 'switch':
            out = [c[1] for c in t['cases']] + [t['else']]
        elif k in ('call', 'drop', 'assert'):
            if t.get('to') is not None:
                out = [t['to']]
            if unwind and t.get('uw') is not None:
                out = out + [t['uw']]
        return out

    def succs(self):
        if self._succ is None:
            self._succ = [self.succ(i) for i in range(len(self.blocks))]
        return self._succ

    def preds(self):
        if self._pred is None:
            p = [[] for _ in self.blocks]
            for i, ss in enumerate(self.succs()):
                for s in ss:
                    p[s].append(i)
            self._pred = p
        return self._pred

    def reachable_blocks(self, start=0, avoid=()):
        seen = set()
        if start in avoid:
            return seen
        dq = deque([start])
        seen.add(start)
        while dq:
            b = dq.popleft()
            for s in self.succs()[b]:
                if s not in seen and s not in avoid:
                    seen.add(s)
                    dq.append(s)
        return seen

    def normal_blocks(self):
        return self.reachable_blocks(0)

    def return_blocks(self):
        return [i for i in self.normal_blocks() if self.blocks[i]['t']['t'] == 'return']

    def calls(self, only_normal=True):
        """yield (block index, terminator) for every call terminator"""
        blocks = self.normal_blocks() if only_normal else range(len(self.blocks))
        for i in sorted(blocks):
            t = self.blocks[i]['t']
            if t['t'] == 'call':
                yield i, t

    def dominators(self):
        """classic iterative dominator sets over normal (non-unwind) edges"""
        nodes = sorted(self.normal_blocks())
        dom = {n: set(nodes) for n in nodes}
        dom[0] = {0}
        preds = self.preds()
        changed = True
        while changed:
            changed = False
            for n in nodes:
                if n == 0:
                    continue
                ps = [p for p in preds[n] if p in dom]
                if not ps:
                    continue
                new = set.intersection(*[dom[p] for p in ps]) | {n}
                if new != dom[n]:
                    dom[n] = new
                    changed = True
        return dom


# ---- inlining of helper functions that did not exist when the rules were written ---------------------------------
# Rules are anchored at functions by name (return_impl, unwind_stack, try_statement ...). An extract-method refactoring moves part of
# such a body into a new private helper; the property still holds but an intra-procedural rule no longer sees the moved statements.
# rules/tables/known_fns.json lists the function paths of the tree the rules were written against. Any *other* non-closure function
# of the crate that is called directly is spliced into its callers before any rule runs (and dropped as a unit of its own), so a rule
# sees the same statements wherever the refactoring put them. On a tree without new functions this is the identity.

import copy as _copy


def _rm_place(pl, lo):
    if not isinstance(pl, dict) or 'l' not in pl:
        return pl
    out = dict(pl)
    out['l'] = pl['l'] + lo
    if 'p' in pl:
        out['p'] = [dict(e, i=e['i'] + lo) if isinstance(e, dict) and 'i' in e else e for e in pl['p']]
    return out


def _rm_operand(o, lo, po):
    if not isinstance(o, dict):
        return o
    if 'c' in o:
        return {'c': _rm_place(o['c'], lo)}
    if 'm' in o:
        return {'m': _rm_place(o['m'], lo)}
    if 'k' in o and po and isinstance(o['k'], dict) and isinstance(o['k'].get('s'), str) and 'promoted[' in o['k']['s']:
        k = dict(o['k'])
        i = int(k['s'].split('promoted[')[1].split(']')[0])
        k['s'] = k['s'].replace('promoted[%d]' % i, 'promoted[%d]' % (i + po))
        return {'k': k}
    return o


def _rm_rvalue(r, lo, po):
    out = dict(r)
    for key in ('o', 'a', 'b'):
        if key in r:
            out[key] = _rm_operand(r[key], lo, po)
    if 'ops' in r:
        out['ops'] = [_rm_operand(x, lo, po) for x in r['ops']]
    if isinstance(r.get('p'), dict):
        out['p'] = _rm_place(r['p'], lo)
    return out


def _rm_term(t, lo, bo, po):
    out = dict(t)
    for key in ('to', 'uw', 'else'):
        if isinstance(t.get(key), int):
            out[key] = t[key] + bo
    if 'cases' in t:
        out['cases'] = [[v, b + bo] for v, b in t['cases']]
    if 'd' in t:
        out['d'] = _rm_operand(t['d'], lo, po)
    if 'c' in t and isinstance(t['c'], dict):
        out['c'] = _rm_operand(t['c'], lo, po)
    if 'p' in t and isinstance(t['p'], dict):
        out['p'] = _rm_place(t['p'], lo)
    if 'args' in t:
        out['args'] = [_rm_operand(a, lo, po) for a in t['args']]
    if 'dst' in t:
        out['dst'] = _rm_place(t['dst'], lo)
    if 'f' in t and isinstance(t['f'], dict) and 'ind' in t['f']:
        f2 = dict(t['f'])
        f2['ind'] = _rm_operand(t['f']['ind'], lo, po)
        out['f'] = f2
    return out


def _splice(raw, bi, g, args=None, pre=None):
    """replace the call terminator of block bi in raw (a function's JSON) by the body of g (a Fn); `args` overrides the operands bound
    to g's parameters (closure calls pass a tuple), `pre` builds statements for the argument block from the local offset"""
    call = raw['blocks'][bi]['t']
    lo = len(raw['locals'])
    bo = len(raw['blocks'])
    po = len(raw.get('promoted', []))
    raw['locals'] = raw['locals'] + [dict(x) for x in g.raw['locals']]
    if g.raw.get('promoted'):
        raw['promoted'] = list(raw.get('promoted', [])) + _copy.deepcopy(g.raw['promoted'])
    cont = call.get('to')
    sp = call.get('sp')
    new_blocks = []
    for b in g.raw['blocks']:
        stmts = []
        for s_ in b['s']:
            s2 = dict(s_)
            if 'd' in s_:
                s2['d'] = _rm_place(s_['d'], lo)
            if 'r' in s_:
                s2['r'] = _rm_rvalue(s_['r'], lo, po)
            stmts.append(s2)
        t = b['t']
        if t['t'] == 'return':
            # hand the result to the call's destination and continue after the call
            stmts.append({'d': call['dst'], 'r': {'rv': 'use', 'o': {'m': {'l': lo}}}, 'sp': sp})
            t2 = {'t': 'goto', 'to': cont, 'sp': sp} if cont is not None else {'t': 'unreachable', 'sp': sp}
        else:
            t2 = _rm_term(t, lo, bo, po)
            if t2['t'] == 'call':
                _instantiate_trait_call(t2, call, g)
        new_blocks.append({'s': stmts, 't': t2})
    # argument passing, then jump to the callee's entry
    entry = bo + len(new_blocks)
    argst = list(pre(lo) if pre else [])
    bound = {st_['d']['l'] for st_ in argst}
    argst += [{'d': {'l': lo + 1 + i}, 'r': {'rv': 'use', 'o': a}, 'sp': sp} for i, a in enumerate(args if args is not None else call.get('args', []))
              if a is not None and (lo + 1 + i) not in bound]
    new_blocks.append({'s': argst, 't': {'t': 'goto', 'to': bo, 'sp': sp}})
    raw['blocks'] = raw['blocks'] + new_blocks
    raw['blocks'][bi] = {'s': raw['blocks'][bi]['s'], 't': {'t': 'goto', 'to': entry, 'sp': sp, 'inlined': g.path}}


def _instantiate_trait_call(t2, call, g):
    """a generic helper spliced into a caller: `<T as Trait>::method` inside it is resolved for the type the call site gives T
    (the helper's type parameters are named in g.raw['generics'] in the order of the call's substitution list)"""
    fr = t2.get('f')
    if not isinstance(fr, dict) or fr.get('res') or not fr.get('trait') or not fr.get('a'):
        return
    crate = g.crate
    gens = g.raw.get('generics') or []
    subst = (call.get('f') or {}).get('ra') or (call.get('f') or {}).get('a') or []
    st = crate.ty(fr['a'][0])
    if st.get('k') != 'param' or st.get('n') not in gens:
        return
    k = gens.index(st['n'])
    if k >= len(subst):
        return
    conc = subst[k]
    mname = fr['def'].rsplit('::', 1)[-1]
    for im in crate.impls:
        if im.get('trait') == fr['trait'] and im.get('self') == conc:
            for it in im['items']:
                if it.endswith('::' + mname):
                    t2['f'] = dict(fr, res=it, rk='item', rl=True, rc='yarel', ra=[conc], a=[conc], instantiated=True)
                    return


_CLOSURE_CALLS = ('std::ops::FnOnce::call_once', 'std::ops::FnMut::call_mut', 'std::ops::Fn::call')


def _single_def(raw, l):
    ds = [s_ for b in raw['blocks'] for s_ in b['s'] if (s_.get('d') or {}).get('l') == l and not s_['d'].get('p')]
    # the argument block of a spliced helper assigns parameters: those count as definitions too
    return ds[0] if len(ds) == 1 else None


def _splice_closure_calls(crate, raw, count):
    """inside a body that received an inlined helper: a call of a closure value whose construction is visible in the same body
    (`helper(|f| ..)` after `helper` was spliced in) is replaced by the closure's body. Returns True if something was spliced."""
    for bi, b in enumerate(raw['blocks']):
        t = b['t']
        if t['t'] != 'call' or not isinstance(t.get('f'), dict) or t['f'].get('def') not in _CLOSURE_CALLS or t['f'].get('res') or len(t.get('args', [])) != 2:
            continue
        # the callee: follow copies / moves / reborrows of plain locals back to the closure construction
        o = t['args'][0]
        l = (o.get('m') or o.get('c') or {}).get('l')
        by_ref = False
        path = None
        for _ in range(8):
            d = _single_def(raw, l) if l is not None else None
            if d is None:
                break
            rr = d['r']
            if rr.get('rv') == 'agg' and rr.get('closure'):
                path = rr['closure']
                break
            if rr.get('rv') == 'use':
                src = rr['o'].get('m') or rr['o'].get('c')
                if not src or src.get('p'):
                    break
                l = src['l']
            elif rr.get('rv') == 'ref' and not rr['p'].get('p'):
                by_ref = True
                l = rr['p']['l']
            else:
                break
        g = crate.fns.get(path) if path else None
        if g is None or count.get(path, 0) >= 6:
            continue
        # the argument tuple
        tl = (t['args'][1].get('m') or t['args'][1].get('c') or {}).get('l')
        td = _single_def(raw, tl) if tl is not None else None
        if td is None or td['r'].get('rv') != 'agg' or not td['r'].get('tuple'):
            if g.argc > 1:
                continue
            ops = []
        else:
            ops = td['r']['ops']
        if len(ops) != g.argc - 1:
            continue
        env_ty = crate.types[g.raw['locals'][1]['t']]
        wants_ref = env_ty.get('k') == 'ref'
        arg0 = t['args'][0]
        pre = None
        if wants_ref and not by_ref:
            holder = (arg0.get('m') or arg0.get('c'))
            pre = (lambda lo, holder=holder, sp=t.get('sp'): [{'d': {'l': lo + 1}, 'r': {'rv': 'ref', 'm': True, 'p': {'l': holder['l']}}, 'sp': sp}])
        _splice(raw, bi, g, args=[arg0] + list(ops), pre=pre)
        count[path] = count.get(path, 0) + 1
        return True
    return False


def inline_new_helpers(crate, known):
    """splice every directly called function that is not in `known` into its callers; returns the paths that were dissolved"""
    # only module-private functions: an extracted helper is private to the module of its caller; a new pub / pub(crate) function is
    # an interface of its own (generated class getters, new natives, new API) and stays a unit
    def module_private(f):
        v = f.vis or ''
        return v.startswith('Restricted(') and '::' in v.split('~', 1)[-1]
    # a function that merely moved to another module keeps its `Type::name` (or `module::name`) tail and is not new
    def tail(p0):
        segs = [x for x in _re.sub(r'<[^<>]*>', '', _re.sub(r'<[^<>]*>', '', p0)).split('::') if x]
        return '::'.join(segs[-2:])
    known_tails = {tail(k) for k in known}
    known = set(known) | {p_ for p_ in crate.fns if tail(p_) in known_tails}

    def direct_call_sites(p0):
        n = 0
        for f in crate.fns.values():
            for b in f.raw['blocks']:
                t = b['t']
                if t['t'] == 'call' and isinstance(t.get('f'), dict) and (t['f'].get('res') or t['f'].get('def')) == p0:
                    n += 1
        return n
    # ... or crate-visible with exactly one call site: bookkeeping moved next to the data it touches (e.g. a new ObjFiber method called
    # from the one Vm function it was cut out of). Generated accessors and new natives have no or several direct call sites.
    new = {p_ for p_, f in crate.fns.items() if f.kind != 'Closure' and p_ not in known and
           (module_private(f) or direct_call_sites(p_) == 1)}
    # a new *public* function with a single internal call site (an API cut out of the function that now delegates to it) is spliced
    # into that caller as well, but stays a unit of its own: it can also be called from outside
    keep = {p_ for p_ in new if (crate.fns[p_].vis or '') == 'Public'}
    # a recursive function is a unit of its own (and a fact the recursion rules must see), never a helper to dissolve
    def direct_callees(f):
        return {(b['t']['f'].get('res') or b['t']['f'].get('def')) for b in f.raw['blocks'] if b['t']['t'] == 'call' and isinstance(b['t'].get('f'), dict)}

    def recursive(p0):
        seen, stack = set(), list(direct_callees(crate.fns[p0]))
        while stack:
            q = stack.pop()
            if q == p0:
                return True
            # only cycles that stay inside the set of new functions count: a helper cut out of a recursive-descent routine is on a cycle
            # through the (known) routines it serves and is still just a helper
            if q in seen or q not in crate.fns or q not in new:
                continue
            seen.add(q)
            stack.extend(direct_callees(crate.fns[q]))
        return False
    new = {p_ for p_ in new if not recursive(p_)}
    if not new:
        return []
    originals = {p_: crate.fns[p_] for p_ in new}
    dissolved = {}
    for path, f in list(crate.fns.items()):
        raw = None
        count = {}
        progress = True
        rounds = 0
        while progress and rounds < 60:
            progress = False
            rounds += 1
            blocks = (raw or f.raw)['blocks']
            for bi, b in enumerate(blocks):
                t = b['t']
                if t['t'] != 'call':
                    continue
                cal = t['f'].get('res') or t['f'].get('def')
                if cal not in new or cal == path or count.get(cal, 0) >= 6:
                    continue
                if raw is None:
                    raw = dict(f.raw)
                    raw['blocks'] = list(f.raw['blocks'])
                    raw['locals'] = list(f.raw['locals'])
                _splice(raw, bi, originals[cal])
                count[cal] = count.get(cal, 0) + 1
                dissolved.setdefault(cal, path)
                crate.inlined_into.setdefault(cal, set()).add(path)
                progress = True
                break
            if not progress and raw is not None and _splice_closure_calls(crate, raw, count):
                progress = True
        if raw is not None:
            crate.fns[path] = Fn(crate, raw)
    for cal, first_caller in dissolved.items():
        if cal in keep:
            continue
        # the helper lives on inside its callers; its closures belong to the first of them
        crate.fns.pop(cal, None)
        for g in crate.fns.values():
            if g.kind == 'Closure' and g.parent == cal:
                g.parent = first_caller
    return sorted(dissolved)


def callee_name(t):
    """resolved callee path of a call terminator, or the unresolved def, or None for indirect"""
    f = t['f']
    if 'def' in f:
        return f.get('res') or f['def']
    return None


def callee_def(t):
    f = t['f']
    return f.get('def')


def op_place(o):
    if 'c' in o:
        return o['c']
    if 'm' in o:
        return o['m']
    return None


def op_const(o):
    return o.get('k')


def place_str(fn, p):
    s = fn.local_name(p['l']) if isinstance(p['l'], int) else str(p['l'])
    for e in p.get('p', []):
        if e == '*':
            s = '(*%s)' % s
        elif isinstance(e, dict) and 'n' in e:
            s = '%s.%s' % (s, e['n'])
        elif isinstance(e, dict) and 'v' in e:
            s = '(%s as %s)' % (s, e['v'])
        elif isinstance(e, dict) and 'i' in e:
            s = '%s[_%d]' % (s, e['i'])
        else:
            s = '%s[..]' % s
    return s


def proj_names(p):
    """projection as a tuple of simple tokens: '*', field name, 'as Variant', '[]'"""
    out = []
    for e in p.get('p', []):
        if e == '*':
            out.append('*')
        elif isinstance(e, dict) and 'n' in e:
            out.append(e['n'])
        elif isinstance(e, dict) and 'v' in e:
            out.append('as ' + e['v'])
        else:
            out.append('[]')
    return tuple(out)


class World:
    """all crates of one configuration"""

    def __init__(self, directory):
        self.dir = directory
        self.crates = {}
        for fn in sorted(os.listdir(directory)):
            if fn.endswith('.json'):
                c = Crate(os.path.join(directory, fn))
                self.crates[c.name] = c
        self.fns = {}
        for c in self.crates.values():
            self.fns.update(c.fns)
        self.yarel = self.crates['yarel']
        self._cg = None
        self._reified = None

    def fn(self, path):
        return self.fns.get(path)

    def require_fn(self, path, prop):
        f = self.fns.get(path)
        if f is None:
            raise Broken(prop, 'anchor', 'function %s not found' % path)
        return f

    # ---- fn-pointer reifications -----------------------------------------------------------------
    def reified(self):
        """map fn-pointer type string -> set of function paths reified to it (incl. closures)"""
        if self._reified is not None:
            return self._reified
        out = defaultdict(set)
        for f in self.fns.values():
            allblocks = list(f.blocks)
            for pb in f.raw.get('promoted', []):
                allblocks += pb['blocks']
            for b in allblocks:
                for s in b['s']:
                    r = s.get('r')
                    if not r or r.get('rv') != 'cast':
                        continue
                    ck = r['ck']
                    if 'ReifyFnPointer' in ck or 'ClosureFnPointer' in ck:
                        tstr = f.crate.tstr(r['t'])
                        src = None
                        k = op_const(r['o'])
                        if k is not None and 'fn' in k:
                            src = k['fn']
                        else:
                            # closure value: find its type
                            pl = op_place(r['o'])
                            if pl is not None:
                                t = f.crate.ty(f.local_ty(pl['l']))
                                if t['k'] == 'closure':
                                    src = t['n']
                                elif t['k'] == 'fndef':
                                    src = t['n']
                            elif k is not None:
                                t = f.crate.ty(k['t'])
                                if t['k'] in ('closure', 'fndef'):
                                    src = t['n']
                        if src:
                            out[norm_fnptr(tstr)].add(src)
        # functions named in const tables (e.g. the parser's RULES array) are reified inside the const's own body, which is
        # not a function: register them under their own signature
        for c in self.crates.values():
            for tpath, tree in c.const_tables.items():
                for leaf in _tree_paths(tree):
                    cand = leaf
                    if cand not in self.fns:
                        continue
                    f = self.fns[cand]
                    args = [norm_fnptr(f.crate.tstr(f.local_ty(i))) for i in range(1, f.argc + 1)]
                    ret = norm_fnptr(f.crate.tstr(f.local_ty(0)))
                    sig = 'fn(' + ', '.join(args) + ')' + ('' if ret == '()' else ' -> ' + ret)
                    out[sig].add(cand)
        self._reified = out
        return out

    # ---- call graph ------------------------------------------------------------------------------
    def callgraph(self):
        """edges: caller path -> set of callee paths (workspace functions only), plus
        self.cg_ext[caller] = set of external callee names, self.cg_opaque = indirect calls with no
        known target."""
        if self._cg is not None:
            return self._cg
        reified = self.reified()
        # workspace impls of std traits, per self ADT
        impls_by_type = defaultdict(set)
        for c in self.crates.values():
            for im in c.impls:
                if 'trait' not in im:
                    continue
                st = c.ty(im['self'])
                names = set()
                for _, t in c.ty_walk(im['self']):
                    if t['k'] == 'adt':
                        names.add(t['n'])
                        break
                for n in names:
                    for it in im['items']:
                        if it in self.fns:
                            impls_by_type[n].add((im['trait'], it))
        self._impls_by_type = impls_by_type
        cg = defaultdict(set)
        ext = defaultdict(set)
        opaque = defaultdict(set)
        for f in self.fns.values():
            for bi, t in f.calls(only_normal=False):
                targets, extname, opq = self.call_targets(f, t)
                cg[f.path] |= targets
                if extname is not None:
                    ext[f.path].add(extname)
                if opq is not None:
                    opaque[f.path].add(opq)
        self._cg = cg
        self.cg_ext = ext
        self.cg_opaque = opaque
        return cg

    def call_targets(self, f, t):
        """(workspace functions this call terminator may enter, external callee name or None, opaque fn-pointer type or None)"""
        if self._cg is None and not hasattr(self, '_impls_by_type'):
            self.callgraph()
        impls_by_type = self._impls_by_type
        reified = self.reified()
        c = f.crate
        fr = t['f']
        out = set()
        if 'def' in fr:
            res = fr.get('res')
            if res is not None and res in self.fns:
                return {res}, None, None
            name = res or fr['def']
            if res is None and fr.get('trait') and fr['trait'].startswith('yarel::'):
                # unresolved call of a workspace trait method: edge to every impl
                mname = fr['def'].rsplit('::', 1)[-1]
                for c2 in self.crates.values():
                    for im in c2.impls:
                        if im.get('trait') == fr['trait']:
                            for it in im['items']:
                                if it.endswith('::' + mname) and it in self.fns:
                                    out.add(it)
                return out, None, None
            # external generic code: edges to closures / fn items passed as arguments
            for a in t['args']:
                for tgt in self._fn_values(f, a):
                    out.add(tgt)
            # ... and to workspace impls of std traits for workspace types among the
            # callee's generic arguments
            mentioned = set()
            for a in fr.get('ra', fr.get('a', [])):
                for _, tt in ty_walk_no_handles(c, a):
                    if tt['k'] == 'adt' and tt['n'] in impls_by_type:
                        mentioned.add(tt['n'])
                    if tt['k'] == 'closure' and tt['n'] in self.fns:
                        out.add(tt['n'])
                    if tt['k'] == 'fndef' and tt['n'] in self.fns:
                        out.add(tt['n'])
            want = ext_traits_needed(name)
            for n in mentioned:
                for (tr, it) in impls_by_type[n]:
                    if tr.startswith('std::') or tr.startswith('core::'):
                        if want is None or tr in want:
                            out.add(it)
            return out, name, None
        tstr = norm_fnptr(c.tstr(fr['t']))
        tk = c.ty(fr['t'])['k']
        if tk in ('closure', 'fndef'):
            n = c.ty(fr['t'])['n']
            if n in self.fns:
                out.add(n)
        out |= {x for x in reified.get(tstr, ()) if x in self.fns}
        if out:
            return out, None, None
        return out, None, tstr

    def _fn_values(self, f, operand):
        """workspace functions / closures a call argument may denote"""
        c = f.crate
        out = set()
        k = op_const(operand)
        tid = None
        if k is not None:
            if 'fn' in k and k['fn'] in self.fns:
                out.add(k['fn'])
            tid = k['t']
        else:
            pl = op_place(operand)
            if pl is not None:
                tid = pl.get('t', f.local_ty(pl['l']))
        if tid is not None:
            for _, t in c.ty_walk(tid):
                if t['k'] in ('closure', 'fndef') and t['n'] in self.fns:
                    out.add(t['n'])
        return out

    def reach_from(self, roots):
        cg = self.callgraph()
        seen = set(roots)
        dq = deque(roots)
        while dq:
            x = dq.popleft()
            for y in cg.get(x, ()):
                if y not in seen:
                    seen.add(y)
                    dq.append(y)
        return seen

    def can_reach(self, targets):
        """set of functions from which some function in `targets` is reachable (incl. targets)"""
        cg = self.callgraph()
        rev = defaultdict(set)
        for a, bs in cg.items():
            for b in bs:
                rev[b].add(a)
        seen = set(targets)
        dq = deque(targets)
        while dq:
            x = dq.popleft()
            for y in rev.get(x, ()):
                if y not in seen:
                    seen.add(y)
                    dq.append(y)
        return seen

    def call_path(self, src, targets):
        """one shortest call path src -> ... -> t (t in targets), for reports"""
        cg = self.callgraph()
        prev = {src: None}
        dq = deque([src])
        while dq:
            x = dq.popleft()
            if x in targets:
                out = []
                while x is not None:
                    out.append(x)
                    x = prev[x]
                return list(reversed(out))
            for y in sorted(cg.get(x, ())):
                if y not in prev:
                    prev[y] = x
                    dq.append(y)
        return None


_FMT = {'std::fmt::Display', 'std::fmt::Debug'}
_EQ = {'std::cmp::PartialEq', 'std::cmp::Eq'}
_HASH = {'std::hash::Hash', 'std::cmp::PartialEq', 'std::cmp::Eq'}
_CLONE = {'std::clone::Clone'}


def ext_traits_needed(name):
    """which std traits of the type arguments an external generic function may call back into;
    None = unknown (all of them)"""
    n = strip_generics(name)
    m = _re.match(r"^<.* as ([\w:]+)(<.*>)?>::(\w+)$", n)
    if m:
        tr = m.group(1)
        if tr in ('std::cmp::PartialEq', 'std::cmp::Eq', 'std::cmp::PartialOrd', 'std::cmp::Ord'):
            return _EQ | {'std::cmp::PartialOrd', 'std::cmp::Ord'}
        if tr in ('std::fmt::Display', 'std::fmt::Debug', 'std::fmt::Write', 'std::string::ToString'):
            return _FMT
        if tr == 'std::hash::Hash':
            return {'std::hash::Hash'}
        if tr == 'std::clone::Clone':
            return _CLONE
        if tr in ('std::ops::Deref', 'std::ops::DerefMut', 'std::iter::Iterator', 'std::iter::IntoIterator', 'std::ops::Index',
                  'std::ops::IndexMut', 'std::ops::Drop', 'std::default::Default', 'std::convert::From', 'std::convert::Into',
                  'std::convert::AsRef', 'std::borrow::Borrow', 'std::ops::Try', 'std::ops::FromResidual', 'std::iter::FromIterator',
                  'std::iter::Extend', 'std::iter::DoubleEndedIterator', 'std::iter::ExactSizeIterator', 'std::convert::TryInto',
                  'std::convert::TryFrom', 'std::hash::Hasher', 'std::hash::BuildHasher', 'std::ops::Fn', 'std::ops::FnMut',
                  'std::ops::FnOnce', 'std::slice::SliceIndex', 'std::str::FromStr', 'std::iter::Sum', 'std::ops::Not'):
            if tr in ('std::iter::FromIterator', 'std::iter::Extend') and 'HashMap' in n:
                return _HASH
            return set()
    if n in ('std::vec::partial_eq::eq', 'std::cmp::impls::eq', 'std::cmp::impls::ne', 'std::cmp::impls::cmp', 'std::cmp::impls::partial_cmp',
             'core::str::traits::eq', 'std::array::equality::eq', 'core::slice::cmp::eq'):
        return _EQ | {'std::cmp::PartialOrd', 'std::cmp::Ord'}
    if n in ('std::clone::impls::clone', 'std::vec::from_elem'):
        return _CLONE
    if n in ('std::rt::panic_fmt', 'std::rt::begin_panic', 'core::panicking::panic', 'core::panicking::panic_fmt'):
        return _FMT
    if n.startswith('std::iter::Iterator::') or n.startswith('std::iter::') or n.startswith('core::str::') or n.startswith('core::num::') \
            or n.startswith('core::f64::') or n.startswith('std::f64::') or n.startswith('std::string::String::') or n.startswith('std::path::') \
            or n.startswith('std::time::') or n.startswith('std::pin::Pin::') or n.startswith('std::char::') or n.startswith('std::io::') \
            or n.startswith('std::fs::') or n.startswith('std::env::') or n.startswith('std::hint::') or n.startswith('std::thread::') \
            or n.startswith('std::array::') or n.startswith('std::str::') or n.startswith('std::process::') or n.startswith('std::any::') \
            or n in ('std::default::Default::default', 'std::ops::Fn::call', 'std::ops::FnMut::call_mut', 'std::ops::FnOnce::call_once',
                     'std::hash::Hasher::write_u64', 'core::hash::impls::hash', 'std::slice::join', 'std::ffi::OsStr::to_str',
                     'std::boxed::box_assume_init_into_vec_unsafe'):
        return set()
    if 'fmt::rt::Argument' in n:
        if n.endswith('new_display'):
            return {'std::fmt::Display'}
        if n.endswith('new_debug'):
            return {'std::fmt::Debug'}
        return _FMT
    if n.startswith('std::fmt::') or n.startswith('core::fmt::') or n in ('std::io::_print', 'std::io::_eprint', 'alloc::fmt::format',
                                                                          'std::fmt::format', 'alloc::fmt::format::format_inner'):
        return _FMT
    if n.endswith('PartialEq>::eq') or n.endswith('PartialEq>::ne') or n.endswith('::PartialEq::eq') or n.endswith('::PartialEq::ne'):
        return _EQ
    if n.startswith('std::collections::HashMap::') or n.startswith('std::collections::hash_map::'):
        tail = n.rsplit('::', 1)[-1]
        if tail in ('insert', 'get', 'get_mut', 'remove', 'contains_key', 'entry', 'or_insert_with', 'or_insert', 'retain', 'get_key_value'):
            return _HASH
        if tail in ('clone',):
            return _CLONE | _HASH
        if tail in ('len', 'is_empty', 'iter', 'iter_mut', 'keys', 'values', 'values_mut', 'clear', 'with_hasher', 'new', 'drain', 'next',
                    'into_iter'):
            return set()
    if n.endswith('Clone>::clone') or n.endswith('::Clone::clone') or n.endswith('::to_vec') or n.endswith('::to_owned'):
        return _CLONE
    if n.endswith('Hash>::hash') or n.endswith('::Hash::hash'):
        return {'std::hash::Hash'}
    if n.startswith('std::vec::Vec::') or n.startswith('core::slice::') or n.startswith('std::slice::') or n.startswith('std::option::Option::') \
            or n.startswith('std::result::Result::') or n.startswith('std::cell::') or n.startswith('std::mem::') \
            or n.startswith('std::ptr::') or n.startswith('core::ptr::') or n.startswith('std::boxed::Box::'):
        tail = n.rsplit('::', 1)[-1]
        if tail in ('contains', 'dedup', 'sort', 'sort_unstable', 'starts_with', 'ends_with', 'binary_search', 'is_sorted', 'concat', 'join', 'strip_prefix', 'strip_suffix'):
            return None
        if tail in ('clone', 'cloned', 'to_vec', 'extend_from_slice', 'resize'):
            return _CLONE
        return set()
    return None


def ty_walk_no_handles(c, tid, seen=None):
    """like Crate.ty_walk but does not look inside Gc/Root/UniqueRoot: std-trait impls of a handle never call
    the pointee's impls (the workspace's own impls for handles are separate functions with their own edges)"""
    if seen is None:
        seen = set()
    if tid in seen:
        return
    seen.add(tid)
    t = c.types[tid]
    yield tid, t
    if t['k'] == 'adt' and t['n'] in ('yarel::memory::Gc', 'yarel::memory::Root', 'yarel::memory::UniqueRoot'):
        return
    for a in t.get('a', []):
        yield from ty_walk_no_handles(c, a, seen)
    if 't' in t:
        yield from ty_walk_no_handles(c, t['t'], seen)


def _tree_paths(tree):
    if isinstance(tree, dict):
        for k, v in tree.items():
            if k == 'path' and isinstance(v, str):
                yield v
            else:
                yield from _tree_paths(v)
    elif isinstance(tree, list):
        for x in tree:
            yield from _tree_paths(x)


def norm_fnptr(s):
    # fn-pointer type strings differ only by region names between sites: normalise them away
    import re
    s = re.sub(r"for<[^>]*>\s*", '', s)
    s = re.sub(r"'[a-zA-Z_0-9]+\s*", '', s)
    s = s.replace('yarel::', '')
    return s


class Broken(Exception):
    def __init__(self, prop, kind, msg):
        super().__init__(msg)
        self.prop = prop
        self.kind = kind
        self.msg = msg


# ---- origin ("derives from") analysis -------------------------------------------------------------

# Calls through which a value is considered to derive from its first argument (the repository's own
# wrapper idioms plus std accessors). Matching is on the resolved callee path suffix.
DERIVATION_WRAPPERS = [
    'std::ops::Deref::deref', 'std::ops::DerefMut::deref_mut',
    '::deref', '::deref_mut',
    'std::option::Option::<T>::as_ref', 'std::option::Option::<T>::as_mut',
    'std::option::Option::<T>::unwrap', 'std::option::Option::<T>::expect',
    'std::option::Option::<T>::map', 'std::option::Option::<&T>::copied',
    'std::option::Option::<&T>::cloned', 'std::option::Option::<T>::unwrap_or',
    'std::option::Option::<T>::unwrap_or_default', 'std::option::Option::<T>::take',
    'std::result::Result::<T, E>::unwrap', 'std::result::Result::<T, E>::expect',
    'std::ops::Try::branch', 'std::ops::FromResidual::from_residual',
    'std::cell::RefCell::<T>::borrow', 'std::cell::RefCell::<T>::borrow_mut', 'std::cell::Cell::<T>::get',
    'std::clone::Clone::clone', 'std::convert::Into::into', 'std::convert::From::from', 'std::string::String::as_str',
    'std::convert::AsRef::as_ref',
    'yarel::memory::Gc::<T>::as_root', 'yarel::memory::Root::<T>::as_gc',
    'yarel::memory::Gc::<T>::as_ptr', 'std::cell::RefCell::<T>::as_ptr',
    'std::iter::IntoIterator::into_iter', 'std::iter::Iterator::next', 'std::iter::Iterator::enumerate', 'std::iter::Iterator::rev',
    'core::slice::<impl [T]>::iter', 'std::collections::HashMap::<K, V, S>::values',
    'std::collections::HashMap::<K, V, S>::keys', 'std::collections::HashMap::<K, V, S>::iter',
    'std::ops::Index::index', 'std::ops::IndexMut::index_mut',
    'core::slice::<impl [T]>::last', 'core::slice::<impl [T]>::last_mut',
    'std::pin::Pin::<Ptr>::as_ref', 'std::pin::Pin::<&\'a T>::get_ref',
    'std::ptr::NonNull::<T>::as_ref', 'std::ptr::NonNull::<T>::as_mut', 'std::ptr::NonNull::<T>::as_ptr',
]


def strip_generics(name):
    """drop `::<...>` turbofish segments: std::option::Option::<T>::map -> std::option::Option::map"""
    out = []
    i = 0
    n = len(name)
    while i < n:
        if name.startswith('::<', i):
            depth = 0
            j = i + 2
            while j < n:
                if name[j] == '<':
                    depth += 1
                elif name[j] == '>':
                    depth -= 1
                    if depth == 0:
                        break
                j += 1
            i = j + 1
            continue
        out.append(name[i])
        i += 1
    return ''.join(out)


_WRAP_STRIPPED = None


def is_wrapper(name):
    global _WRAP_STRIPPED
    if name is None:
        return False
    if _WRAP_STRIPPED is None:
        _WRAP_STRIPPED = [strip_generics(w) for w in DERIVATION_WRAPPERS]
    sn = strip_generics(name)
    if sn.startswith('yarel::value::Value::try_as_obj_') or sn == 'yarel::value::Value::try_as_number':
        return True
    for w in _WRAP_STRIPPED:
        if sn == w or (w.startswith('::') and sn.endswith(w)):
            return True
    # trait-resolved deref impls etc.: "<X as std::ops::Deref>::deref"
    tail = name.rsplit('::', 1)[-1]
    if tail in ('deref', 'deref_mut', 'borrow', 'borrow_mut', 'as_ref', 'as_mut', 'clone', 'into_iter',
                'next', 'index', 'index_mut', 'branch', 'from_residual', 'from', 'into'):
        if ' as std::' in name or ' as core::' in name:
            return True
    return False


MAXPATH = 24
# enum aggregates that leave an 'in <Variant>' token on origin paths
ENUM_AGG_TOKENS = {'std::result::Result', 'std::option::Option', 'std::ops::ControlFlow'}


CONTAINER_WRITES = {'std::vec::Vec::push', 'std::vec::Vec::insert', 'std::collections::VecDeque::push_back', 'std::collections::VecDeque::push_front'}
CONTAINER_READS = {'std::ops::Index::index', 'std::ops::IndexMut::index_mut', 'std::vec::Vec::pop', 'std::vec::Vec::remove', 'core::slice::<impl [T]>::get',
                   'core::slice::<impl [T]>::first', 'core::slice::<impl [T]>::last', 'std::collections::VecDeque::pop_front', 'std::collections::VecDeque::pop_back'}


def origins(fn, through_calls='wrappers', extra_wrappers=()):
    """flow-insensitive may-origin analysis.

    Returns dict local -> set of access paths; an access path is a tuple (root, tok, tok, ...)
    where root is ('arg', n) / ('call', block_index, callee) / ('const', repr) / ('local', n) and toks
    are projection tokens as produced by proj_names().  A value derives from a call result when the
    call is not a derivation wrapper (then the root is the call itself)."""
    org = defaultdict(set)
    for a in range(1, fn.argc + 1):
        org[a].add((('arg', a),))

    # field-sensitive tuples: local -> list of operand lists of the tuple aggregates assigned to it
    tuple_defs = defaultdict(list)
    other_defs = set()
    ovf_locals = set()
    for b in fn.blocks:
        for s in b['s']:
            d = s.get('d')
            if not d or d.get('p'):
                continue
            r = s['r']
            if r.get('rv') == 'agg' and r.get('tuple'):
                tuple_defs[d['l']].append(r['ops'])
            else:
                other_defs.add(d['l'])
            if r.get('rv') == 'bin' and 'WithOverflow' in r['op']:
                ovf_locals.add(d['l'])
        t = b['t']
        if t['t'] == 'call' and not t['dst'].get('p'):
            other_defs.add(t['dst']['l'])

    def place_paths(p):
        toks = proj_names(p)
        ps = p.get('p', [])
        if p['l'] in tuple_defs and p['l'] not in other_defs and ps and isinstance(ps[0], dict) and 'f' in ps[0]:
            k = ps[0]['f']
            out = set()
            for ops in tuple_defs[p['l']]:
                if k < len(ops):
                    for q in operand_paths(ops[k]):
                        out.add((q + toks[1:])[:MAXPATH])
            return out
        if p['l'] in ovf_locals and toks[:1] == ('0',):
            toks = toks[1:]
        base = org.get(p['l'])
        if not base:
            base = {(('local', p['l']),)}
        out = set()
        for q in base:
            r = q + toks
            if len(r) > MAXPATH:
                r = r[:MAXPATH]
            out.add(r)
        return out

    def operand_paths(o):
        pl = op_place(o)
        if pl is not None:
            return place_paths(pl)
        k = op_const(o)
        if k is not None:
            if 'fn' in k:
                return {(('const', 'fn:' + k['fn']),)}
            if 'v' in k:
                return {(('const', k['v']),)}
            return {(('const', k.get('s', '?')),)}
        return set()

    # flow through a *local* collection (a Vec built and read inside this function): what is pushed comes back out of an element read
    ref_of = {}
    multi = set()
    for b in fn.blocks:
        for s in b['s']:
            d = s.get('d')
            if d and not d.get('p') and s['r'].get('rv') == 'ref' and not s['r']['p'].get('p'):
                if d['l'] in ref_of and ref_of[d['l']] != s['r']['p']['l']:
                    multi.add(d['l'])
                ref_of[d['l']] = s['r']['p']['l']
    for l in multi:
        ref_of.pop(l, None)
    elems = defaultdict(set)

    def container_of(o):
        pl = op_place(o)
        if pl is None or pl.get('p'):
            return None
        return ref_of.get(pl['l'])

    changed = True
    rounds = 0
    while changed and rounds < 50:
        changed = False
        rounds += 1
        for bi, b in enumerate(fn.blocks):
            for s in b['s']:
                if 'd' not in s:
                    continue
                r = s['r']
                rv = r['rv']
                new = set()
                if rv == 'use':
                    new = operand_paths(r['o'])
                elif rv in ('ref', 'rawptr'):
                    new = place_paths(r['p'])
                    if (r['p'].get('p') or [None])[-1] == '*':
                        # a reborrow `&mut *x` denotes what x denotes (otherwise `(*reborrow).f` reads as `(**x).f`)
                        new = {q[:-1] if q[-1:] == ('*',) and len(q) > 1 else q for q in new}
                elif rv == 'cast':
                    new = operand_paths(r['o'])
                elif rv == 'agg':
                    for o in r['ops']:
                        new |= operand_paths(o)
                    if r.get('adt') and r.get('v') and r['adt'] in ENUM_AGG_TOKENS:
                        new = {(q + ('in ' + r['v'],))[:MAXPATH] for q in new}
                elif rv in ('bin',):
                    new = operand_paths(r['a']) | operand_paths(r['b'])
                    if r['op'] not in ('Eq', 'Ne', 'Lt', 'Le', 'Gt', 'Ge'):
                        new = {(q + ('#bin',))[:MAXPATH] if q[-1:] != ('#bin',) else q for q in new}
                elif rv == 'un':
                    new = operand_paths(r['a'])
                elif rv == 'discr':
                    new = {q + ('#discr',) for q in place_paths(r['p'])}
                elif rv == 'repeat':
                    new = operand_paths(r['o'])
                if '*' in s['d'].get('p', []):
                    continue      # store through a pointer: not an origin of the pointer itself
                d = s['d']['l']
                if not new <= org[d]:
                    org[d] |= new
                    changed = True
            t = b['t']
            if t['t'] == 'call':
                d = t['dst']['l']
                name = callee_name(t)
                new = set()
                wrap = is_wrapper(name) or (name is not None and any(name.endswith(w) for w in extra_wrappers))
                if through_calls == 'all' or wrap:
                    if wrap and t['args']:
                        tail = '@' + (name or '?').rsplit('::', 1)[-1]
                        for q in operand_paths(t['args'][0]):
                            q2 = q + (tail,)
                            new.add(q2[:MAXPATH])
                    else:
                        for a in t['args']:
                            new |= operand_paths(a)
                if not wrap:
                    new.add((('call', bi, name or '<indirect>'),))
                sn = strip_generics(name or '')
                if sn in CONTAINER_WRITES and len(t['args']) >= 2:
                    cv = container_of(t['args'][0])
                    if cv is not None:
                        add = {(q + ('[]',))[:MAXPATH] for q in operand_paths(t['args'][-1])}
                        if not add <= elems[cv]:
                            elems[cv] |= add
                            changed = True
                elif (sn in CONTAINER_READS or (sn.endswith(('::index', '::index_mut')) and 'ops::Index' in sn)) and t['args']:
                    cv = container_of(t['args'][0])
                    if cv is not None and elems[cv]:
                        new |= elems[cv]
                if not new <= org[d]:
                    org[d] |= new
                    changed = True
    # a use that was visited before the definition of its source (block order is not flow order, e.g. after splicing a helper in)
    # left a ('local', n) placeholder behind; once n has origins of its own the later rounds have added them, and the placeholder
    # says nothing more
    has_real = {l for l, qs in org.items() if any(q[0][0] != 'local' for q in qs)}
    for l, qs in org.items():
        stale = {q for q in qs if q[0][0] == 'local' and q[0][1] in has_real and q[0][1] != l}
        if stale and len(stale) < len(qs):
            qs -= stale
    return org
