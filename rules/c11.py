"""C11 string identity = content identity: I1 single constructor, I2 look-up before insert with the same key,
I3 immutability, I4 intern-table probe terminates and compares both components."""
import struct

from facts import origins, callee_name, op_place, op_const, Broken, strip_generics
import c01
from c16 import operand_fields

VM = 'yarel::vm::Vm::'
STORE = 'yarel::vm::string_store::ObjStringStore'   # re-resolved in run(): the module that defines ObjStringStore
SSMOD = 'yarel::vm::string_store'
OBJSTRING = 'yarel::object::ObjString'


def roles_impl(w, trait):
    import roles
    return roles.impl_path(w, 'ObjStringStore', trait)


def bind(w):
    """the intern table's module is found from its type (rules of this module also run under other properties)"""
    global STORE, SSMOD
    import roles
    SSMOD = roles.module_of(w, 'ObjStringStore')
    STORE = SSMOD + '::ObjStringStore'


def run(rep):
    w = rep.world('dev')
    bind(w)
    rep.guard(i1, rep, w)
    rep.guard(i2, rep, w)
    rep.guard(i3, rep, w)
    rep.guard(i4, rep, w)
    rep.guard(i5, rep, w)
    rep.guard(i6, rep, w)
    rep.guard(i7, rep, w)
    import c10
    rep.guard(c10.v2, rep, w)     # a debug-only cap on probe steps: a long (legal) probe chain aborts string creation in the checked build
    rep.guard(c01.r1_support, rep, w)     # equality by identity needs the table to keep every string for good: an entry that is released lets a second object with the same text appear
    import c04
    rep.guard(c04.b12, rep, w)    # one constant per distinct string / value: the constant pool is keyed by the value itself, not by a digest of it (two strings with one digest would be one constant)
    if rep.tier == 'thorough':
        import witness
        witness.run_witnesses(rep, 'C11', ['W1StringConstructorIsPrivate', 'W2StringFieldsArePrivate'])


def i1(rep, w):
    bind(w)
    c = w.yarel
    r = rep.rule('I1', 'one constructor: every ObjString is built by ObjString::new, called only from Vm::new_gc_obj_string; no other path '
                 'puts an ObjString into the heap', floor=4)
    new = OBJSTRING + '::new'
    cs = c01.callers_of(w, new)
    r.check(len(cs) == 1 and cs[0][0].path == VM + 'new_gc_obj_string', 'ObjString::new has one caller',
            'ObjString::new is called from %s: strings created there bypass the intern table, so equal contents get different '
            'identities' % sorted({x[0].path for x in cs}), cs[0][0].loc() if cs else '')
    lits = sorted({f.path for (f, sp, k) in c01.field_writers(w, OBJSTRING, 'string') if k == 'construct'})
    r.check(set(lits) <= {new, 'yarel::<object::ObjString as std::clone::Clone>::clone'}, 'ObjString literals only in new (and derived Clone)',
            'ObjString struct literal in %s' % lits)
    # heap allocations of ObjString: Root::new / UniqueRoot::new with T = ObjString
    sites = []
    for f in w.fns.values():
        for bi, t in f.calls():
            n = callee_name(t) or ''
            if n in ('yarel::memory::Root::<T>::new', 'yarel::memory::UniqueRoot::<T>::new'):
                a = (t['f'].get('ra') or t['f'].get('a') or [None])[0]
                if a is not None and f.crate.ty(a).get('n', '').endswith('object::ObjString'):
                    sites.append(f.path)
    r.check(sites == [VM + 'new_gc_obj_string'], 'ObjString is allocated in one place', 'ObjString allocated in %s' % sites)
    # derived Clone is never called on an ObjString value that is then allocated (no caller at all)
    cl = c01.callers_of(w, 'yarel::<object::ObjString as std::clone::Clone>::clone')
    r.check(not cl, 'ObjString::clone is never called', 'ObjString::clone called from %s' % sorted({x[0].path for x in cl}))
    r.check(w.fns[new].vis is not None and not w.fns[new].vis.startswith('Public'), 'ObjString::new is not public',
            'ObjString::new is pub: host code can create uninterned strings (visibility %s)' % w.fns[new].vis)


def i2(rep, w):
    bind(w)
    r = rep.rule('I2', 'new_gc_obj_string looks the content up first and allocates only on a miss, with the same hash it stores', floor=4)
    f = w.require_fn(VM + 'new_gc_obj_string', 'C11')
    org = origins(f)
    gets = [bi for bi, t in f.calls() if callee_name(t) == STORE + '::get']
    allocs = [bi for bi, t in f.calls() if callee_name(t) == 'yarel::memory::Root::<T>::new']
    ins = [bi for bi, t in f.calls() if callee_name(t) == STORE + '::insert']
    news = [bi for bi, t in f.calls() if callee_name(t) == OBJSTRING + '::new']
    if not (gets and allocs and ins and news):
        raise Broken('C11', 'anchor', 'new_gc_obj_string: get/alloc/insert/new not all found')
    dom = f.dominators()
    r.check(all(any(g in dom.get(a, ()) for g in gets) for a in allocs), 'allocation dominated by string_store.get',
            'a string is allocated without consulting the intern table first', f.loc())
    # the hit edge returns the stored string: there is a return path from get that does not allocate
    ret_wo_alloc = False
    for g in gets:
        seen = set()
        st = list(f.succs()[g])
        while st:
            b = st.pop()
            if b in seen or b in allocs or b in news:
                continue
            seen.add(b)
            if f.blocks[b]['t']['t'] == 'return':
                ret_wo_alloc = True
            st.extend(f.succs()[b])
    r.check(ret_wo_alloc, 'a hit returns without allocating', 'every path allocates a new string even when the content is already interned', f.loc())
    # same hash: the hash argument of ObjString::new and the key given to get derive from the same finish() call
    fin = {('call', bi, callee_name(t)) for bi, t in f.calls() if (callee_name(t) or '').endswith('Hasher>::finish')}
    nt = f.blocks[news[0]]['t']
    gt = f.blocks[gets[0]]['t']
    hash_arg = op_place(nt['args'][2])
    key_arg = op_place(gt['args'][1])
    hroots = {q[0] for q in org.get(hash_arg['l'], ())} if hash_arg else set()
    kroots = {q[0] for q in org.get(key_arg['l'], ())} if key_arg else set()
    r.check(bool(fin) and bool(hroots & fin) and bool(kroots & fin), 'stored hash and look-up key come from the same FnvHasher::finish()',
            'the hash stored in the new string and the hash used for the look-up are computed differently', f.loc())
    # same data
    data_arg = op_place(nt['args'][1])
    droots = {q[0] for q in org.get(data_arg['l'], ())} if data_arg else set()
    r.check(('arg', 2) in droots and ('arg', 2) in kroots, 'stored content and look-up key are the same &str', 'content given to ObjString::new differs from '
            'the content looked up', f.loc())
    r.check(all(c01.must_pass(f, a, set(ins)) for a in allocs), 'every allocated string is inserted', 'an allocated string is returned without being interned', f.loc())


def i3(rep, w):
    bind(w)
    c = w.yarel
    r = rep.rule('I3', 'strings are immutable: no writer of ObjString.string/hash outside the constructor, no &mut to a managed string', floor=3)
    for fld in ('string', 'hash'):
        ws = sorted({f.path for (f, sp, k) in c01.field_writers(w, OBJSTRING, fld) if k == 'store'})
        r.check(not ws, 'ObjString.%s has no writer' % fld, 'ObjString.%s is written in %s: an interned string changes under its intern-table key' % (fld, ws))
    # no DerefMut for Gc / Root, and Root::as_mut is unsafe and never used on a string
    bad = [im['path'] for im in c.impls if im.get('trait') == 'std::ops::DerefMut' and c.ty(im['self']).get('n') in (c01.GC, c01.ROOT)]
    r.check(not bad, 'no DerefMut for Gc/Root', 'mutable deref of shared handles: %s' % bad)
    am = w.fns.get('yarel::memory::Root::<T>::as_mut')
    if am is not None:
        r.check(am.unsafe, 'Root::as_mut is unsafe', 'Root::as_mut is a safe function: safe code can mutate shared storage', am.loc())
        users = []
        for (g, bi, t) in c01.callers_of(w, am.path):
            a = (t['f'].get('ra') or t['f'].get('a') or [None])[0]
            if a is not None and g.crate.ty(a).get('n', '').endswith('ObjString'):
                users.append(g.path)
        r.check(not users, 'Root::as_mut never applied to a string', 'Root::<ObjString>::as_mut used in %s' % users)
    # mutable accessors on the String inside
    muts = []
    for f in c.fns.values():
        for bi, t in f.calls():
            n = strip_generics(callee_name(t) or '')
            if n.startswith('std::string::String::') and n.rsplit('::', 1)[-1] in ('push', 'push_str', 'clear', 'truncate', 'insert', 'insert_str', 'as_mut_vec', 'as_mut_str', 'pop', 'remove', 'retain'):
                pl = op_place(t['args'][0])
                if pl is not None and any('string' in q and q[0][0] == 'arg' for q in origins(f).get(pl['l'], ())):
                    if f.impl_self is not None and c.ty(f.impl_self).get('n') == OBJSTRING:
                        muts.append(f.path)
    r.check(not muts, 'no mutating String method on ObjString.string', 'ObjString.string mutated in %s' % muts)


def f64_of(bits):
    return struct.unpack('<d', struct.pack('<Q', bits & (2 ** 64 - 1)))[0]


def i4(rep, w):
    bind(w)
    c = w.yarel
    r = rep.rule('I4', 'intern-table probing terminates (load factor < 1, power-of-two capacity, mask = capacity - 1) and a slot matches '
                 'only on equal hash and equal text', floor=6)
    ml = c.consts.get(SSMOD + '::MAX_LOAD', {}).get('v')
    ic = c.consts.get(SSMOD + '::INIT_CAPACITY', {}).get('v')
    if ml is None or ic is None:
        raise Broken('C11', 'anchor', 'string_store constants not found')
    mlf = f64_of(ml)
    r.check(0.0 < mlf < 1.0, 'MAX_LOAD = %s < 1' % mlf, 'MAX_LOAD = %s: the table can fill up and find_index never finds an empty slot' % mlf)
    r.check(ic > 0 and (ic & (ic - 1)) == 0, 'INIT_CAPACITY = %d is a power of two' % ic, 'INIT_CAPACITY = %d is not a power of two: `hash & mask` does not '
            'reach every slot' % ic)
    ins = w.require_fn(STORE + '::insert', 'C11')
    ac = [bi for bi, t in ins.calls() if callee_name(t) == STORE + '::adjust_capacity']
    fi = [bi for bi, t in ins.calls() if callee_name(t) == SSMOD + '::find_index']
    ok = bool(ac) and bool(fi) and all(f_ in ins.reachable_blocks(a) for a in ac for f_ in fi) and not any(a in ins.reachable_blocks(f_) for a in ac for f_ in fi)
    r.check(ok, 'insert grows the table before probing', 'insert probes before (or without) the capacity check', ins.loc())
    # growth doubles
    dbl = any(s.get('r', {}).get('rv') == 'bin' and s['r']['op'].startswith('Mul') and (op_const(s['r']['b']) or {}).get('v') == 2 for b in ins.blocks for s in b['s'])
    r.check(dbl, 'capacity doubles', 'adjust_capacity is no longer called with len * 2 (capacity must stay a power of two)', ins.loc())
    # the growth test compares size + 1 with len * MAX_LOAD using >
    cmpok = any(s.get('r', {}).get('rv') == 'bin' and s['r']['op'] in ('Gt', 'Ge') for b in ins.blocks for s in b['s'])
    r.check(cmpok, 'insert: size + 1 > capacity * MAX_LOAD triggers growth', 'growth test changed', ins.loc())
    # mask writers
    for p in (STORE + '::adjust_capacity', roles_impl(w, 'std::default::Default') + '::default'):
        f = w.require_fn(p, 'C11')
        sub1 = any(s.get('r', {}).get('rv') == 'bin' and s['r']['op'].startswith('Sub') and (op_const(s['r']['b']) or {}).get('v') == 1 for b in f.blocks for s in b['s'])
        lit = False
        if not sub1:
            # constant-folded INIT_CAPACITY - 1
            for b in f.blocks:
                for s in b['s']:
                    rr = s.get('r', {})
                    if rr.get('rv') == 'agg' and rr.get('adt') == STORE:
                        i = rr['fn'].index('mask')
                        k = op_const(rr['ops'][i])
                        lit = k is not None and k.get('v') == ic - 1
        r.check(sub1 or lit, '%s: mask = capacity - 1' % p.rsplit('::', 1)[-1], 'mask is no longer capacity - 1', f.loc())
    ws = sorted({f.path for (f, sp, k) in c01.field_writers(w, STORE, 'mask') if k == 'store'})
    r.check(ws == [STORE + '::adjust_capacity'], 'mask written only by adjust_capacity', 'mask written in %s' % ws)
    # find_index: a filled slot matches only when hash == and str ==
    fx = w.require_fn(SSMOD + '::find_index', 'C11')
    dom = fx.dominators()
    heq = []
    seq = []
    for bi in fx.normal_blocks():
        b = fx.blocks[bi]
        t = b['t']
        for s in b['s']:
            rr = s.get('r', {})
            if rr.get('rv') == 'bin' and rr['op'] == 'Eq' and t['t'] == 'switch' and op_place(t['d']) and op_place(t['d'])['l'] == s['d']['l']:
                pa = op_place(rr['a'])
                if pa is not None and fx.crate.tstr(pa.get('t', fx.local_ty(pa['l']))) == 'u64':
                    heq.append(t['else'])
        if t['t'] == 'call' and (callee_name(t) or '').endswith('::eq') and (
                'str' in (callee_name(t) or '') or any(fx.crate.tstr(a) in ('str', '&str') for a in (t['f'].get('ra') or []) + (t['f'].get('a') or []))):
            nxt = t.get('to')
            if nxt is not None and fx.blocks[nxt]['t']['t'] == 'switch':
                seq.append(fx.blocks[nxt]['t']['else'])
    # the return inside the Some arm: a return-index assignment dominated by both true edges
    both = False
    for bi in fx.normal_blocks():
        for s in fx.blocks[bi]['s']:
            if s.get('d', {}).get('l') == 0 and not s['d'].get('p'):
                d = dom.get(bi, ())
                if any(h in d for h in heq) and any(q in d for q in seq):
                    both = True
    # ... and a slot counts as free only because the entry itself is empty (the None arm of a test on entries[index]): a side table of
    # tags or flags can disagree with the entries ("tag 0 means free" - and the hash whose tag is 0?)
    forg = origins(fx)
    none_edges = set()
    for bi in fx.normal_blocks():
        t = fx.blocks[bi]['t']
        if t['t'] != 'switch':
            continue
        qs = forg.get((op_place(t['d']) or {}).get('l'), ())
        if qs and all('#discr' in q[1:] and (any(isinstance(tk, str) and tk.startswith('@index') for tk in q[1:]) or (q[0][0] == 'call' and (q[0][2] or '').endswith('::index'))) for q in qs):
            none_edges |= {cb for v, cb in t['cases'] if v == 0}
            if not any(v == 0 for v, _ in t['cases']):
                none_edges.add(t['else'])
    free_ok = True
    for bi in fx.normal_blocks():
        for s in fx.blocks[bi]['s']:
            if s.get('d', {}).get('l') == 0 and not s['d'].get('p'):
                d = dom.get(bi, ())
                if any(h in d for h in heq) and any(q in d for q in seq):
                    continue
                if not any(e in d for e in none_edges):
                    free_ok = False
    r.check(free_ok and bool(none_edges), 'find_index reports a slot as free only when the entry in it is None', 'find_index returns a slot as free without testing the entry itself (the decision '
            'comes from a side table or a sentinel): a filled slot that looks free is overwritten, or - on look-up - another string is taken for the one asked for', fx.loc())
    r.check(bool(heq) and bool(seq) and both, 'find_index matches a filled slot only on equal hash and equal text',
            'find_index returns a filled slot without comparing both the hash and the text: different strings can be identified', fx.loc())
    # single probe implementation: outside find_index, slots of the table are only addressed by an index that find_index
    # returned (a second, hand-written probe sequence must agree with the first one on every slot -- including the wrap-around)
    FI = SSMOD + '::find_index'
    n = 0
    for f in sorted(c.fns.values(), key=lambda x: x.path):
        if 'string_store' not in f.path or f.path == FI:
            continue
        org = None
        for bi, t in f.calls():
            nm = callee_name(t) or ''
            if not (nm.endswith('::index') or nm.endswith('::index_mut')) or len(t['args']) != 2:
                continue
            base = op_place(t['args'][0])
            bt = c.tstr(c.peel_refs(base.get('t', f.local_ty(base['l'])))) if base else ''
            if 'Option<memory::Root<object::ObjString>>' not in bt:
                continue
            if org is None:
                org = origins(f)
            n += 1
            ip = op_place(t['args'][1])
            from_fi = ip is not None and any(q[0][0] == 'call' and q[0][2] == FI for q in org.get(ip['l'], ())) and \
                not any(q[0][0] != 'call' or q[0][2] != FI for q in org.get(ip['l'], ()))
            r.check(from_fi, '%s / slot index comes from find_index' % f.path, 'a slot of the intern table is addressed by an index that was not computed by '
                    'find_index: a second probe sequence exists and look-ups can miss strings it placed', f.loc(t.get('sp')))
    if n < 3:
        raise Broken('C11', 'floor', 'only %d slot accesses found in string_store' % n)
    # Value equality / hashing of strings goes through the handle (valid because of I1-I3)
    vh = w.require_fn('yarel::<value::Value as std::hash::Hash>::hash', 'C11')
    r.check('hash' in {tok for q in origins(vh).values() for p_ in q for tok in p_[1:]}, 'Value::hash(ObjString) uses the cached content hash', 'string hashing changed', vh.loc())


def i5(rep, w):
    bind(w)
    """two strings with the same bytes must hash alike wherever their bytes happen to sit in memory: the hasher consumes the byte slice one
    byte at a time. Splitting it by alignment (align_to), reading it through pointers or in native-endian words makes the hash depend on
    the buffer's address or length class, and equal texts are interned twice."""
    r = rep.rule('I5', 'the string hash is a function of the bytes alone: no alignment-, address- or word-dependent step in the hasher', floor=1)
    # PassThroughHasher forwards a hash that was already computed (a fixed-width u64 handed over as bytes): it never sees string bytes
    hs = [f for p_, f in w.yarel.fns.items() if (p_.startswith('yarel::hash::') or '<hash::' in p_) and 'PassThroughHasher' not in p_]
    if not hs:
        raise Broken('C11', 'anchor', 'no function of the hash module found')
    BAD = ('align_to', 'align_offset', 'as_ptr', 'from_ne_bytes', 'read_unaligned', 'from_raw_parts', 'chunks_exact', 'as_chunks')
    n = 0
    for f in sorted(hs, key=lambda x: x.path):
        used = sorted({(callee_name(t) or '').rsplit('::', 1)[-1] for _, t in f.calls() if (callee_name(t) or '').rsplit('::', 1)[-1] in BAD})
        n += 1
        r.check(not used, f.path.replace('yarel::', ''), '%s uses %s: the hash of a string can depend on where its bytes are stored (or on how the buffer splits into words), so the same text hashes '
                'differently as a fresh string and as a slice of another' % (f.path, used), f.loc())


def i6(rep, w):
    """"is this text already a string?" is answered by the table itself: every answer of the look-up - found or not found - comes after the probe
    (find_index compares hash and bytes). A shortcut in front of it (a filter on length, a first-byte table, a bloom bit) answers "not there" from
    a summary that insert has to keep exact for ever; the day it does not, an existing string is made a second time and `==` on equal texts is false."""
    bind(w)
    r = rep.rule('I6', 'the intern-table look-up answers only after the probe: no path returns before find_index', floor=1)
    f = w.require_fn(STORE + '::get', 'C11')
    probes = {bi for bi, t in f.calls() if callee_name(t) == SSMOD + '::find_index'}
    if not probes:
        # a look-up that probes through a helper of the table
        probes = {bi for bi, t in f.calls() if (callee_name(t) or '').startswith(SSMOD + '::') and any(callee_name(t2) == SSMOD + '::find_index' for _, t2 in (w.fns[callee_name(t)].calls() if callee_name(t) in w.fns else []))}
    # the one early answer that needs no summary to be kept exact: an empty table holds nothing (the edge on which the entry count, or the
    # length of the entry vector, compares equal to zero)
    empty_edges = set()
    org = origins(f)
    for bi in f.normal_blocks():
        t = f.blocks[bi]['t']
        if t['t'] != 'switch' or op_place(t['d']) is None:
            continue
        dl = op_place(t['d'])['l']
        for s_ in f.blocks[bi]['s']:
            rr = s_.get('r', {})
            if (s_.get('d') or {}).get('l') == dl and rr.get('rv') == 'bin' and rr['op'] in ('Eq', 'Ne'):
                ka, kb = op_const(rr['a']), op_const(rr['b'])
                other = op_place(rr['b']) if ka is not None else op_place(rr['a'])
                k = ka if ka is not None else kb
                if k is not None and k.get('v') == 0 and other is not None:
                    from c16 import operand_fields
                    flds = operand_fields(f, org, {'c': other}) | {e.get('n') for e in other.get('p', []) if isinstance(e, dict)}
                    qs = org.get(other['l'], ())
                    plain = not any('#bin' in q[1:] for q in qs)       # the count itself, not something computed from it
                    is_len = bool(qs) and all(q[0][0] == 'call' and strip_generics(q[0][2]).rsplit('::', 1)[-1] in ('len',) and 'entries' in operand_fields(f, org, f.blocks[q[0][1]]['t']['args'][0]) for q in qs)
                    if plain and ((flds & {'size'} and not (flds - {'size', None})) or is_len):
                        zero = [cb for v, cb in t['cases'] if v == 0]
                        edge = t['else'] if rr['op'] == 'Eq' else (zero[0] if zero else None)
                        if edge is not None:
                            empty_edges.add(edge)
        # `if self.entries.is_empty()` / a len()-like predicate
    for bi, t in f.calls():
        if strip_generics(callee_name(t) or '').rsplit('::', 1)[-1] == 'is_empty':
            b = t.get('to')
            tt = f.blocks[b]['t'] if b is not None else None
            if tt and tt['t'] == 'switch':
                empty_edges.add(tt['else'])
    r.check(bool(probes) and c01.all_paths_hit(f, None, probes | empty_edges), 'ObjStringStore::get: every path probes the table',
            'ObjStringStore::get can answer without probing the table (a filter in front of find_index): an answer "not stored" that rests on a summary of what was '
            'inserted lets a second object with the same text into the table', f.loc())


def i7(rep, w):
    """the string a text denotes is the one the table holds for it, or the one just allocated and put there: new_gc_obj_string (and any sibling
    that makes strings) answers with nothing else - a remembered "recently made" string accepted on equal hash and length, say, is another
    text's object."""
    bind(w)
    r = rep.rule('I7', 'every function that hands out an interned string answers with the table\'s entry or the object it has just allocated', floor=1)
    n = 0
    for f in sorted(w.yarel.fns.values(), key=lambda x: x.path):
        if f.kind == 'Closure' or not any(callee_name(t) == STORE + '::get' for _, t in f.calls()):
            continue
        if f.crate.tstr(f.local_ty(0)) not in ('memory::Gc<object::ObjString>', 'yarel::memory::Gc<yarel::object::ObjString>'):
            continue
        n += 1
        org = origins(f)
        bad = []
        for q in org.get(0, ()):
            if q[0][0] == 'call' and (q[0][2] == STORE + '::get' or strip_generics(q[0][2]).endswith(('memory::Root::new', 'memory::Root::from', 'ObjStringStore::insert'))):
                continue
            toks = [x for x in q[1:] if not x.startswith(('@', 'as ', 'in ')) and x not in ('*', '0', '[]')]
            bad.append('%s%s' % (q[0][2].rsplit('::', 1)[-1] if q[0][0] == 'call' else 'a field of the interpreter', (' ' + '.'.join(toks)) if toks else ''))
        r.check(not bad, '%s / result comes from the table or the new allocation' % f.path.replace('yarel::', ''),
                '%s can answer with a string obtained from %s: not the table\'s entry for this text, so equal texts can be different objects (or different texts the same object)'
                % (f.path, sorted(set(bad))), f.loc())
    if n == 0:
        raise Broken('C11', 'anchor', 'no function that looks a text up in the intern table and returns a string handle')
