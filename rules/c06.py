"""C06 lexical scoping / capture by variable: S1 (slots are closed before they are dropped), S2 (close-vs-pop
follows the capture flag), S3 (capture descriptors agree between compiler and VM)."""
from facts import origins, callee_name, op_place, op_const, Broken, strip_generics
import c01
import emit
import roles
from c16 import operand_fields

VM = 'yarel::vm::Vm::'
P = emit.P
STACK = 'yarel::stack::Stack::<T, N>::'
CLOSERS = {'yarel::object::ObjFiber::close_upvalues', 'yarel::object::ObjFiber::close_upvalues_for_frame'}


def run(rep):
    w = rep.world('dev')
    rep.guard(s1, rep, w)
    rep.guard(s2, rep, w)
    rep.guard(s12, rep, w)
    rep.guard(s13, rep, w)
    rep.guard(s14, rep, w)
    import c14
    rep.guard(c14.m2, rep, w)     # a name that is not a local or an upvalue is a global of the module the code was written in, and of no other module
    rep.guard(s3, rep, w)
    rep.guard(s4, rep, w)
    rep.guard(s5, rep, w)
    rep.guard(s6, rep, w)
    rep.guard(s7, rep, w)
    rep.guard(s8, rep, w, 'C06')
    rep.guard(s9, rep, w, 'C06')
    rep.guard(s10, rep, w, 'C06')
    rep.guard(s11, rep, w, 'C06')
    import cache
    rep.guard(cache.cc1, rep, w, 'C06')     # a remembered global / attribute look-up must not outlive a write to the table it came from
    rep.guard(cache.cc2, rep, w, 'C06')
    import c08
    rep.guard(c08.x9, rep, w)    # a global name is looked up in the module of the running frame: the cached module follows every frame change
    import c04_narrow
    rep.guard(c04_narrow.b4, rep, w)    # an upvalue index that does not fit its operand byte aliases another captured variable


def s1(rep, w):
    global _SB
    _SB = roles.resolve(w)['slot_base']
    c = w.yarel
    tab = {e['fn']: e for e in c01.table('c06_operand_only.json')}
    r = rep.rule('S1', 'no value-stack slot is dropped while an open upvalue may still point at it: every stack-lowering call is '
                 'dominated by close_upvalues in the same function, or only ever drops expression temporaries', floor=6)
    LOWER = {STACK + 'truncate', STACK + 'clear', STACK + 'pop'}
    used = set()
    for f in sorted(c.fns.values(), key=lambda x: x.path):
        if f.file.endswith('stack.rs'):
            continue
        sites = [(bi, callee_name(t)) for bi, t in f.calls() if callee_name(t) in LOWER]
        if not sites:
            continue
        dom = f.dominators()
        closers = {bi for bi, t in f.calls() if callee_name(t) in CLOSERS}
        for (bi, name) in sites:
            key = '%s / %s' % (f.path, name.rsplit('::', 1)[-1])
            if f.path in tab:
                used.add(f.path)
                r.ok(key + ' (operand-only: %s)' % tab[f.path]['why'])
                continue
            doms = [cb for cb in closers if cb in dom.get(bi, ())]
            ok = bool(doms)
            if r.check(ok, key, 'the value stack is lowered without closing the open upvalues that point into the dropped region first: a '
                       'closure that captured one of those variables now reads/writes whatever reuses the slot', f.loc(f.blocks[bi]['t'].get('sp'))):
                # S1': the closer must start at the new height (closing fewer slots than are dropped leaves dangling upvalues)
                org = origins(f)
                want = height_identity(f, org, bi, name)
                got = set()
                for cb in doms:
                    got |= closer_identity(f, org, cb)
                agree = bool(want & got)
                r.check(agree, key + ' / closes from the new height', 'upvalues are closed from %s but the stack is lowered to %s: open upvalues between the '
                        'two heights keep pointing at dropped slots' % (sorted(map(str, got))[:3], sorted(map(str, want))[:3]), f.loc(f.blocks[bi]['t'].get('sp')))
    for k in tab:
        if k not in used:
            r.note('operand-only entry unused on this tree: ' + k)
    # the operand-only functions really only drop a count / one slot relative to the top and are never handed a frame base
    for fn_, e in tab.items():
        f = w.fns.get(fn_)
        if f is None:
            raise Broken('C06', 'anchor', 'operand-only function %s not found' % fn_)
    # close_upvalues closes everything at or above the index it is given
    cu = w.require_fn('yarel::object::ObjFiber::close_upvalues', 'C06')
    closes = [bi for bi, t in cu.calls() if callee_name(t) == 'yarel::object::ObjUpvalue::close']
    loops = any(bi in cu.reachable_blocks(s) for bi in cu.normal_blocks() for s in cu.succs()[bi])
    r.check(bool(closes) and loops, 'close_upvalues walks the open list and closes', 'close_upvalues no longer loops over the open-upvalue list calling close()', cu.loc())
    # close_upvalues_for_frame is close_upvalues(slot base of the current frame), unconditionally
    cff = w.require_fn('yarel::object::ObjFiber::close_upvalues_for_frame', 'C06')
    forg = origins(cff)
    inner = [(bi, t) for bi, t in cff.calls() if callee_name(t) == 'yarel::object::ObjFiber::close_upvalues']
    ok_cff = bool(inner) and c01.all_paths_hit(cff, None, {bi for bi, _ in inner}) and all(_SB in operand_fields(cff, forg, t['args'][1]) for _, t in inner)
    r.check(ok_cff, 'close_upvalues_for_frame = close_upvalues(current frame\'s slot base) on every path', 'close_upvalues_for_frame skips the closing on some path (or closes from another '
            'height): a frame can return with open upvalues still pointing at its slots - for the body frame of a fiber, into a stack that dies with the fiber', cff.loc())
    cl = w.require_fn('yarel::object::ObjUpvalue::close', 'C06')
    gets = [bi for bi, t in cl.calls() if callee_name(t) == 'yarel::object::ObjUpvalue::get']
    closed = any(s.get('r', {}).get('rv') == 'agg' and s['r'].get('v') == 'Closed' for b in cl.blocks for s in b['s'])
    r.check(bool(gets) and closed, 'ObjUpvalue::close copies the current value into Closed(..)', 'close() no longer snapshots the variable', cl.loc())


_SB = None


def ident(org, o):
    """identity of an index value: constants by value, otherwise origin root + field tokens"""
    k = op_const(o)
    if k is not None and 'v' in k:
        return {('const', k['v'])}
    pl = op_place(o)
    out = set()
    if pl is None:
        return out
    for q in org.get(pl['l'], {(('local', pl['l']),)}):
        toks = tuple('#slot_base' if t == _SB else t for t in q[1:] if not t.startswith('@') and t != '*' and not t.startswith('in ') and not t.startswith('as '))
        if q[0][0] == 'const':
            out.add(('const', q[0][1]) + toks)
        else:
            out.add(toks if toks else (q[0],))
    return out


def height_identity(f, org, bi, name):
    t = f.blocks[bi]['t']
    if name.endswith('::clear'):
        return {('const', 0)}
    if name.endswith('::pop'):
        return {('top',)}
    return ident(org, t['args'][1])


def closer_identity(f, org, cb):
    t = f.blocks[cb]['t']
    n = callee_name(t)
    if n.endswith('close_upvalues_for_frame'):
        return {('#slot_base',)}
    out = ident(org, t['args'][1])
    # `stack_size() - 1` = the top slot
    if any(x and x[-1:] == ('#bin',) for x in out) or any('#bin' in x for x in out):
        out = out | {('top',)}
    return out


def s2(rep, w):
    r = rep.rule('S2', 'scope exit emits CloseUpvalue for captured locals and Pop for the others; capture marks the declaring local', floor=4)
    # the code that chooses how a local leaves the stack is found by what it does - it branches on a local's is_captured flag -
    # wherever a refactoring put it (emit_scope_end today; a helper, or a closure handed to an iterator adapter, tomorrow)
    choosers = scope_exit_choosers(w)
    if not choosers:
        raise Broken('C06', 'anchor', 'no function of the compiler branches on Local.is_captured (the scope-exit emitter was not found)')
    for f in choosers:
        s2_chooser(rep, w, r, f)
    s2_capture(rep, w, r)


def s12(rep, w, prop='C06'):
    """locals leave the stack from the top: the instruction for the local declared last comes first. Whatever route the list of scope-exit
    instructions takes from Compiler.locals to emit_byte (iterator adapters, a collected vector, a second loop), the sequence that is emitted
    is the declaration order reversed - at the end of a scope and on the break / continue path alike. With a captured and an uncaptured local
    in the wrong order the captured one is removed by a plain Pop: its upvalue stays open on a dead slot."""
    import seqdir
    r = rep.rule('S12', 'scope-exit instructions are emitted for the innermost local first (declaration order reversed) on every route from Compiler.locals to the emitter', floor=1)
    choosers = {g.path for g in scope_exit_choosers(w)}
    if not choosers:
        raise Broken(prop, 'anchor', 'no function of the compiler branches on Local.is_captured')
    cg = w.callgraph()
    via = set(choosers)
    for _ in range(2):
        via |= {a for a, bs in cg.items() if bs & via}
    EM = (P + 'emit_byte', P + 'emit_bytes', 'yarel::chunk::Chunk::write')
    n = 0
    for p_ in sorted(via):
        f = w.fns.get(p_)
        if f is None or not f.file.endswith('compiler.rs'):
            continue
        for (bi, d, why) in seqdir.emission_directions(w, f, 'locals', EM):
            if d is None and why.startswith('other field'):
                continue          # a loop over some other table (upvalue descriptors, ...)
            if d is None:
                if p_ in choosers or any(x in choosers for x in cg.get(p_, ())):
                    raise Broken(prop, 'anchor', 'S12: order of the scope-exit emission in %s cannot be determined (%s)' % (p_, why))
                continue
            n += 1
            r.check(d == -1, '%s / emission loop #%d runs over the locals innermost first' % (p_.replace('yarel::compiler::', ''), n if False else 0) if False else
                    '%s / scope-exit emission runs over the locals innermost first' % p_.replace('yarel::compiler::', ''),
                    'the scope-exit instructions are emitted in declaration order (outermost local first) in %s: with a captured and an uncaptured local in one scope the '
                    'captured one is taken off by the other\'s Pop, its upvalue stays open, and closures read whatever reuses the slot' % p_, f.loc(f.blocks[bi]['t'].get('sp')))
    if n == 0:
        raise Broken(prop, 'floor', 'S12: no scope-exit emission loop found')


def s13(rep, w):
    """every evaluation of a function expression creates a closure of its own: its captures are those of *this* activation of the enclosing
    function (a cached closure of an earlier activation shares that activation's variables - two counters made by one factory count together).
    The Closure instruction pushes the object it has just allocated, nothing remembered."""
    r = rep.rule('S13', 'the Closure instruction pushes a closure allocated by that very execution', floor=1)
    f = w.require_fn(VM + 'closure_impl', 'C06')
    org = origins(f)
    pushes = [(bi, t) for bi, t in f.calls() if callee_name(t) == VM + 'push' and len(t['args']) > 1]
    if not pushes:
        raise Broken('C06', 'anchor', 'closure_impl pushes nothing')
    for bi, t in pushes:
        pl = op_place(t['args'][1])
        roots = org.get(pl['l'], ()) if pl is not None else ()
        fresh = [q for q in roots if q[0][0] == 'call' and ('new_root_obj_closure' in q[0][2] or q[0][2].endswith(('Root::<T>::new', 'ObjClosure::new')))]
        other = [q for q in roots if q not in fresh]
        r.check(bool(fresh) and not other, 'closure_impl / the pushed closure is the new allocation',
                'closure_impl can push a closure that was not allocated by this execution of the instruction (origins: %s): a remembered closure carries the captured variables of '
                'the activation that made it' % sorted({(q[0][2].rsplit('::', 1)[-1] if q[0][0] == 'call' else str(q[0])) for q in other}), f.loc(t.get('sp')))


def s14(rep, w):
    """a name denotes the variable with that *name*: the look-up of a local compares the identifier's text with the declared local's text (string
    equality), in resolve_local and in the duplicate test of declare_variable. A digest of the name (a 32-bit hash and a length kept on the token)
    makes two different identifiers one variable for some pair of names."""
    r = rep.rule('S14', 'locals are found by comparing the text of the names (string equality), not a digest of it', floor=2)
    for path in ('yarel::compiler::Compiler::resolve_local', P + 'declare_variable'):
        f = w.require_fn(path, 'C06')
        bodies = [f] + [g for g in w.fns.values() if g.kind == 'Closure' and g.parent == f.path]
        text_eq = False
        int_eq = []
        for g in bodies:
            org = origins(g)
            for bi, t in g.calls():
                n_ = callee_name(t) or ''
                if 'PartialEq' in n_ and ('String' in n_ or 'str' in n_):
                    text_eq = True
            for b in g.blocks:
                for s_ in b['s']:
                    rr = s_.get('r', {})
                    if rr.get('rv') == 'bin' and rr['op'] in ('Eq', 'Ne'):
                        flds = operand_fields(g, org, rr['a']) | operand_fields(g, org, rr['b'])
                        if flds & {'symbol', 'hash', 'name_hash', 'id', 'digest', 'key'} and not (flds & {'depth'}):
                            int_eq.append(sorted(flds & {'symbol', 'hash', 'name_hash', 'id', 'digest', 'key'})[0])
        r.check(text_eq and not int_eq, '%s compares names as text' % path.rsplit('::', 1)[-1],
                '%s does not decide by the text of the names (string comparison: %s; comparisons of %s): two identifiers whose digests coincide are the same variable'
                % (path.rsplit('::', 1)[-1], text_eq, sorted(set(int_eq)) or 'nothing else'), f.loc())


def scope_exit_choosers(w):
    out = []
    for f in sorted(w.yarel.fns.values(), key=lambda x: x.path):
        if not f.file.endswith('compiler.rs'):
            continue
        org = None
        for bi in f.normal_blocks():
            t = f.blocks[bi]['t']
            if t['t'] != 'switch':
                continue
            if org is None:
                org = origins(f)
            if 'is_captured' in operand_fields(f, org, t['d']):
                out.append(f)
                break
    return out


def s2_chooser(rep, w, r, f):
    org = origins(f)
    fname = f.name if f.kind != 'Closure' else f.path.replace(P, '')
    # the two classes of instruction a local can leave the stack by, taken from the VM's own handlers: those that close the
    # upvalues pointing at the slot, and those that only drop slots (Pop, or a counted variant of it)
    import c07
    arms = c07.vm_arm_callees(w)
    if len(arms) < 40:
        raise Broken('C06', 'anchor', 'Vm::run: only %d opcode arms recognised' % len(arms))

    def reaches(names, targets, depth=2):
        seen = set()
        todo = [(n, 0) for n in names if n]
        while todo:
            n, d = todo.pop()
            if n is None or n in seen:
                continue
            seen.add(n)
            if any(n.endswith(t_) for t_ in targets):
                return True
            g = w.fns.get(n)
            if g is not None and d < depth and n.startswith('yarel::vm::Vm::'):
                todo += [(callee_name(t_), d + 1) for _, t_ in g.calls()]
        return False
    closing = {op for op, cs in arms.items() if reaches(cs, ('ObjFiber::close_upvalues', 'ObjFiber::close_upvalues_for_frame'), 1) and not reaches(cs, ('Vm::push_call_frame', 'ObjFiber::push_call_frame', 'Vec::pop'), 1)}
    dropping = {op for op, cs in arms.items() if op not in closing and cs and all(n and (n.endswith(('Vm::pop', 'Vm::discard', 'Vm::read_byte', 'Stack::pop')) or
                (n.startswith('yarel::vm::Vm::') and n.endswith('_impl') and w.fns.get(n) is not None and
                 all((callee_name(t_) or '').endswith(('Vm::pop', 'Vm::discard', 'Vm::read_byte')) for _, t_ in w.fns[n].calls()))) for n in cs)}
    if not closing or not dropping:
        raise Broken('C06', 'anchor', 'instruction classes not recognised (closing %s, dropping %s)' % (sorted(closing), sorted(dropping)))
    dom = f.dominators()
    edges = {'drop': set(), 'close': set()}
    for bi in f.normal_blocks():
        t = f.blocks[bi]['t']
        if t['t'] == 'switch' and 'is_captured' in operand_fields(f, org, t['d']):
            for v, cb in t['cases']:
                if v == 0:
                    edges['drop'].add(cb)
            edges['close'].add(t['else'])
    producers = []
    for bi in f.normal_blocks():
        for s_ in f.blocks[bi]['s']:
            rr = s_.get('r', {})
            if rr.get('rv') == 'agg' and rr.get('adt') == 'yarel::chunk::OpCode':
                producers.append((bi, rr['v']))
        t = f.blocks[bi]['t']
        if t['t'] == 'call' and callee_name(t) == P + 'emit_byte' and len(t['args']) > 1:
            opn, _ = emit.operand_opcode(w, f, bi, t['args'][1])
            if opn is not None and not any(b2 == bi for b2, _ in producers):
                producers.append((bi, opn))
    # `OpCode::X as u8` on a constant is folded to the number: inside an arm of the is_captured test such a byte is the opcode chosen
    optab = emit.opcode_table(w)
    for bi in f.normal_blocks():
        if not any(e in dom.get(bi, ()) for e in edges['close'] | edges['drop']):
            continue
        for s_ in f.blocks[bi]['s']:
            rr = s_.get('r', {})
            k = op_const(rr.get('o', {}) or {}) if rr.get('rv') in ('cast', 'use') else None
            if k is not None and isinstance(k.get('v'), int) and f.crate.tstr(k['t']) in ('u8', 'chunk::OpCode', 'yarel::chunk::OpCode') and k['v'] in optab:
                if not any(b2 == bi for b2, _ in producers):
                    producers.append((bi, optab[k['v']]))
    other = sorted({o for _, o in producers if o not in closing and o not in dropping})
    r.check(bool(producers) and not other and any(o in closing for _, o in producers) and any(o in dropping for _, o in producers),
            '%s: is_captured ? CloseUpvalue : Pop' % fname,
            'the opcode chosen for a local leaving scope no longer follows its is_captured flag (captured -> %s, otherwise %s): %s produces %s' %
            (sorted(closing), sorted(dropping), fname, sorted({o for _, o in producers})), f.loc())
    bad = [(bi, opn) for (bi, opn) in producers if (opn in closing and not any(e in dom.get(bi, ()) for e in edges['close'])) or
           (opn in dropping and not any(e in dom.get(bi, ()) for e in edges['drop']))]
    r.check(bool(producers) and not bad, '%s: every Pop / CloseUpvalue is chosen under the local\'s is_captured test' % fname,
            '%s produces %s without consulting is_captured on that path (e.g. the break / continue path): a captured loop-body variable is popped while its '
            'upvalue stays open, and closures read whatever reuses the slot' % (fname, sorted({o for _, o in bad})), f.loc())


def s2_capture(rep, w, r):
    # who may write Local.is_captured
    ws = {}
    for (g, sp, kind) in c01.field_writers(w, 'yarel::compiler::Local', 'is_captured'):
        ws.setdefault(g.path, set()).add(kind)
    stores = sorted(p for p, k in ws.items() if 'store' in k)
    r.check(stores == [P + 'resolve_upvalue'], 'Local.is_captured is set only by resolve_upvalue', 'is_captured written in %s' % stores)
    ru = w.require_fn(P + 'resolve_upvalue', 'C06')
    # the store is `true`, and happens only after the enclosing compiler resolved the name (Ok arm of resolve_local)
    store_blocks = []
    for bi in ru.normal_blocks():
        for s in ru.blocks[bi]['s']:
            d = s.get('d', {})
            ps = d.get('p', [])
            if ps and isinstance(ps[-1], dict) and ps[-1].get('n') == 'is_captured':
                k = op_const(s['r'].get('o', {})) if s['r'].get('rv') == 'use' else None
                store_blocks.append((bi, k.get('v') if k else None))
    rl = {bi for bi, t in ru.calls() if callee_name(t) == 'yarel::compiler::Compiler::resolve_local'}
    dom = ru.dominators()
    good = bool(store_blocks) and all(v == 1 and any(b in dom.get(bi, ()) for b in rl) for (bi, v) in store_blocks)
    r.check(good, 'resolve_upvalue marks the declaring local captured after resolving it', 'the is_captured store is not `true` or is not dominated '
            'by resolve_local on the enclosing compiler', ru.loc())
    # add_upvalue is called for every compiler between the declaring one and the current one (a loop), is_local only for the first
    adds = [bi for bi, t in ru.calls() if callee_name(t) == 'yarel::compiler::Compiler::add_upvalue']
    in_loop = any(bi in ru.reachable_blocks(s) for bi in adds for s in ru.succs()[bi])
    r.check(bool(adds) and in_loop, 'resolve_upvalue threads the capture through every intermediate function', 'add_upvalue is no longer '
            'called in a loop over the enclosed compilers', ru.loc())


def s3(rep, w):
    r = rep.rule('S3', 'capture descriptors: the compiler emits (is_local, index) per upvalue and the VM reads them in that order, '
                 'upvalue_count counts exactly the pushed descriptors', floor=5)
    for nm in ('function', 'lambda'):
        f = w.require_fn(P + nm, 'C06')
        org = origins(f)
        seq = []
        for bi, t in sorted(f.calls()):
            if callee_name(t) == P + 'emit_byte':
                defs = emit.block_defs(f, bi)
                a = t['args'][1]
                pl = op_place(a)
                rr = defs.get(pl['l']) if pl else None
                flds = set()
                if rr is not None and rr.get('rv') in ('cast', 'use'):
                    flds = operand_fields(f, org, rr['o'])
                elif rr is None and pl is not None:
                    flds = operand_fields(f, org, a)
                in_loop = any(bi in f.reachable_blocks(s) for s in f.succs()[bi])
                if in_loop and ({'is_local', 'index'} & flds):
                    seq.append('is_local' if 'is_local' in flds else 'index')
        r.check(seq == ['is_local', 'index'], '%s: emits is_local then index per upvalue' % nm,
                'descriptor bytes after Closure are emitted as %s (expected is_local, index inside the upvalue loop)' % seq, f.loc())
    ci = w.require_fn(VM + 'closure_impl', 'C06')
    org = origins(ci)
    reads = [(bi, t['dst']['l']) for bi, t in sorted(ci.calls()) if callee_name(t) == VM + 'read_byte'
             and any(bi in ci.reachable_blocks(s) for s in ci.succs()[bi])]
    ok = len(reads) == 2
    if ok:
        # first read is compared with 0 (bool), second is cast to usize and used as an index
        first, second = reads[0][1], reads[1][1]
        cmp0 = False
        cast2 = False
        for b in ci.blocks:
            for s in b['s']:
                rr = s.get('r', {})
                if rr.get('rv') == 'bin' and rr['op'] in ('Ne', 'Eq'):
                    pa = op_place(rr['a'])
                    if pa is not None and (pa['l'] == first or any(q[0] == ('call', reads[0][0], VM + 'read_byte') for q in org.get(pa['l'], ()))):
                        cmp0 = True
                if rr.get('rv') == 'cast' and 'IntToInt' in rr['ck']:
                    pa = op_place(rr['o'])
                    if pa is not None and (pa['l'] == second or any(q[0] == ('call', reads[1][0], VM + 'read_byte') for q in org.get(pa['l'], ()))):
                        cast2 = True
        ok = cmp0 and cast2
    r.check(ok, 'closure_impl: reads is_local (as bool) then index per upvalue', 'closure_impl no longer reads two descriptor bytes per upvalue '
            'in the order (is_local, index)', ci.loc())
    # loop bound is function.upvalue_count
    bound = any('upvalue_count' in operand_fields(ci, org, s['r'].get('o', {})) for b in ci.blocks for s in b['s'] if s.get('r', {}).get('rv') == 'use')
    r.check(bound, 'closure_impl: loop bound is function.upvalue_count', 'descriptor loop is not bounded by the function\'s upvalue_count', ci.loc())
    # upvalue_count is incremented only next to upvalues.push
    au = w.require_fn('yarel::compiler::Compiler::add_upvalue', 'C06')
    ws = sorted({g.path for (g, sp, kind) in c01.field_writers(w, 'yarel::object::ObjFunction', 'upvalue_count') if kind == 'store'})
    r.check(ws == [au.path], 'ObjFunction.upvalue_count is written only by add_upvalue', 'upvalue_count written in %s' % ws)
    pushes = [bi for bi, t in au.calls() if strip_generics(callee_name(t) or '') == 'std::vec::Vec::push']
    incs = [bi for bi in au.normal_blocks() for s in au.blocks[bi]['s'] if s.get('r', {}).get('rv') == 'bin' and s['r']['op'].startswith('Add')]
    ok = bool(pushes) and bool(incs) and all(any(i in au.reachable_blocks(p) for i in incs) for p in pushes)
    r.check(ok, 'add_upvalue: push and count += 1 on the same path', 'upvalues.push and upvalue_count += 1 are no longer paired', au.loc())


def s4(rep, w):
    """close_upvalues stops at the first list entry below its threshold, so it closes everything it must only if the open-upvalue
    list is ordered by descending stack address; capture_upvalue is the only function that inserts, so it must insert in order:
    search with an ordering comparison on the slot address and be able to link the new node behind a predecessor."""
    r = rep.rule('S4', 'the open-upvalue list stays address-ordered: close_upvalues relies on it, capture_upvalue inserts in order', floor=3)
    cu = w.require_fn('yarel::object::ObjFiber::close_upvalues', 'C06')
    # which representation? a chain through a link field of ObjUpvalue, or a vector on the fiber
    c_ = w.yarel
    link = [fd['n'] for fd in c_.adts['yarel::object::ObjUpvalue']['variants'][0]['fields'] if 'object::ObjUpvalue>' in c_.tstr(fd['t'])]
    vecf = [fd['n'] for fd in c_.adts['yarel::object::ObjFiber']['variants'][0]['fields'] if c_.tstr(fd['t']).startswith('std::vec::Vec<') and 'object::ObjUpvalue>' in c_.tstr(fd['t'])]
    if not link and vecf:
        return s4_vec(r, w, cu, vecf[0])
    if not link:
        raise Broken('C06', 'anchor', 'open upvalues: neither a link field on ObjUpvalue nor a vector on ObjFiber')
    # does close_upvalues stop early (loop exit decided by the predicate on the head entry)?
    early = False
    for bi, t in cu.calls():
        if callee_name(t) == 'yarel::object::ObjUpvalue::is_open_with_pred':
            b = t.get('to')
            for _ in range(6):
                tt = cu.blocks[b]['t']
                if tt['t'] == 'switch':
                    early = True
                    break
                b = tt.get('to') if tt['t'] in ('goto', 'drop', 'call') else None
                if b is None:
                    break
    cap = w.require_fn(VM + 'capture_upvalue', 'C06')
    org = origins(cap)
    # who writes the list links?
    link_writers = sorted({g.path for (g, sp, k) in c01.field_writers(w, 'yarel::object::ObjUpvalue', 'next') if k == 'store'} |
                          {g.path for (g, sp, k) in c01.field_writers(w, 'yarel::object::ObjFiber', 'open_upvalues') if k == 'store'})
    r.check(set(link_writers) <= {cap.path, cu.path}, 'open-upvalue list links are written only by capture_upvalue and close_upvalues',
            'the open-upvalue list is also relinked in %s' % sorted(set(link_writers) - {cap.path, cu.path}))
    ordered_cmp = False
    for g in [cap] + [x for x in w.fns.values() if x.kind == 'Closure' and x.parent == cap.path]:
        for b in g.blocks:
            for s in b['s']:
                rr = s.get('r', {})
                if rr.get('rv') == 'bin' and rr['op'] in ('Gt', 'Lt', 'Ge', 'Le'):
                    pa = op_place(rr['a'])
                    if pa is not None and g.crate.tstr(pa.get('t', g.local_ty(pa['l']))).startswith('*'):
                        ordered_cmp = True
    pred_link = False
    for bi in cap.normal_blocks():
        for s in cap.blocks[bi]['s']:
            d = s.get('d', {})
            if d.get('p') and isinstance(d['p'][-1], dict) and d['p'][-1].get('n') == 'next' and c01.base_type_before_last(cap, d) == 'yarel::object::ObjUpvalue':
                roots = {q[0] for q in org.get(d['l'], ())}
                if not any(x[0] == 'call' and x[2].endswith('Root::<T>::new') for x in roots):
                    pred_link = True
    # insertion keeps the rest of the list: on every path from the creation of the new node to the return, the node's `next` is set
    created = [bi for bi, t in cap.calls() if (callee_name(t) or '').endswith('Root::<T>::new')]
    own_next = set()
    for bi in cap.normal_blocks():
        for s_ in cap.blocks[bi]['s']:
            d = s_.get('d', {})
            if d.get('p') and isinstance(d['p'][-1], dict) and d['p'][-1].get('n') == 'next' and c01.base_type_before_last(cap, d) == 'yarel::object::ObjUpvalue':
                roots = {q[0] for q in org.get(d['l'], ())}
                if any(x[0] == 'call' and x[2].endswith('Root::<T>::new') for x in roots):
                    own_next.add(bi)
    r.check(bool(created) and bool(own_next) and all(c01.all_paths_hit(cap, cb, own_next) for cb in created),
            'capture_upvalue links the new upvalue to its successor on every path', 'on some path capture_upvalue inserts the new upvalue without setting its `next`: '
            'the upvalues behind it fall off the open list and are never closed when their scope ends', cap.loc())
    if early:
        r.check(ordered_cmp, 'capture_upvalue searches the list with an ordering comparison on slot addresses',
                'close_upvalues stops at the first entry below its threshold (it assumes descending address order) but capture_upvalue no longer '
                'orders by address: an upvalue inserted out of order is skipped when its scope ends and keeps pointing at a dead slot', cap.loc())
        r.check(pred_link, 'capture_upvalue can link a new upvalue behind a predecessor (insertion in the middle)',
                'capture_upvalue only ever links at the head of the list, so the list is in capture order, not address order, while close_upvalues '
                'stops at the first entry below its threshold: a later-declared variable captured first is never closed', cap.loc())
    else:
        r.ok('close_upvalues examines every entry (no ordering assumption)')
        r.ok('ordering of insertions irrelevant')


def s4_vec(r, w, cu, field):
    """the same obligation when the open upvalues are a vector on the fiber: if close_upvalues stops at the first entry (from the end)
    that is below its threshold, the vector must be sorted by slot address, so capture_upvalue has to insert at a position found by an
    ordering search (or sort after pushing); only the two of them change the vector"""
    c = w.yarel
    cap = w.require_fn(VM + 'capture_upvalue', 'C06')
    early = False
    for bi, t in cu.calls():
        if callee_name(t) == 'yarel::object::ObjUpvalue::is_open_with_pred':
            b = t.get('to')
            for _ in range(8):
                tt = cu.blocks[b]['t']
                if tt['t'] == 'switch':
                    early = True
                    break
                b = tt.get('to') if tt['t'] in ('goto', 'drop', 'call') else None
                if b is None:
                    break
    MUT = ('push', 'insert', 'pop', 'remove', 'truncate', 'clear', 'retain', 'swap_remove', 'drain', 'sort_by', 'sort_by_key', 'sort_unstable_by', 'extend')
    writers = {}
    for f in c.fns.values():
        fo = None
        for bi, t in f.calls():
            n = strip_generics(callee_name(t) or '')
            m = n.rsplit('::', 1)[-1]
            if (n.startswith('std::vec::Vec::') or n.startswith('core::slice::')) and m in MUT and t['args']:
                if fo is None:
                    fo = origins(f)
                if field in operand_fields(f, fo, t['args'][0]):
                    writers.setdefault(f.path, []).append(m)
    allowed = {cap.path, cu.path, VM + 'reset_stack'}
    r.check(set(writers) <= allowed and cap.path in writers, 'the open-upvalue vector is changed only by capture_upvalue and close_upvalues',
            'the open-upvalue vector is also changed in %s' % sorted(set(writers) - allowed))
    ops = writers.get(cap.path, [])
    bodies = [cap] + [g for g in w.fns.values() if g.kind == 'Closure' and g.parent == cap.path]
    search = any(strip_generics(callee_name(t) or '').rsplit('::', 1)[-1] in ('partition_point', 'binary_search_by', 'binary_search_by_key', 'position', 'rposition')
                 for g in bodies for _, t in g.calls())
    ordered = ('insert' in ops and search) or ('push' in ops and any(x.startswith('sort') for x in ops))
    if early:
        r.check(ordered, 'capture_upvalue inserts at a position found by an ordering search', 'close_upvalues stops at the first entry below its threshold (it assumes the vector is sorted by '
                'address) but capture_upvalue adds entries with %s and no ordering search: an upvalue stored out of order is skipped when its scope ends' % sorted(set(ops)), cap.loc())
        pops = writers.get(cu.path, [])
        r.check('pop' in pops or 'truncate' in pops or 'drain' in pops, 'close_upvalues removes the entries it closes', 'close_upvalues closes upvalues but leaves them in the vector', cu.loc())
    else:
        r.ok('close_upvalues examines every entry (no ordering assumption)')
        r.ok('ordering of insertions irrelevant')


def s5(rep, w):
    """the converse of S1: upvalues are closed only for slots that are about to be discarded. A variable whose slot stays live
    (a suspended fiber's frame, a frame that continues after a call) must stay shared between its frame and the closures that
    captured it; closing it early gives the closures a private copy and later writes on either side are lost."""
    global _SB
    _SB = roles.resolve(w)['slot_base']
    c = w.yarel
    r = rep.rule('S5', 'every close_upvalues(i) is followed, on every path, by the value stack being lowered to i: variables whose slots stay live are never closed', floor=5)
    LOWER = {STACK + 'truncate', STACK + 'clear', STACK + 'pop', 'yarel::vm::Vm::pop'}
    for f in sorted(c.fns.values(), key=lambda x: x.path):
        if f.path.startswith('yarel::object::ObjFiber::'):
            continue   # close_upvalues_for_frame -> close_upvalues: the wrapper, counted at its callers
        sites = [bi for bi, t in f.calls() if callee_name(t) in CLOSERS]
        if not sites:
            continue
        org = origins(f)
        lowers = {bi: callee_name(t) for bi, t in f.calls() if callee_name(t) in LOWER}
        # removing the frame itself ends the life of every slot from its slot_base up (a finished fiber's stack is never read again)
        frame_pops = {bi for bi, t in f.calls() if strip_generics(callee_name(t) or '') == 'std::vec::Vec::pop' and t['args'] and
                      roles.resolve(w)['frames'] in operand_fields(f, org, t['args'][0])}
        for bi in frame_pops:
            lowers[bi] = 'frames.pop'
        for n, cb in enumerate(sorted(sites)):
            key = '%s / close #%d' % (f.path, n)
            hit = c01.all_paths_hit(f, cb, set(lowers) - {cb})
            if not r.check(bool(lowers) and hit, key,
                           'open upvalues are closed although the stack slots they refer to are not discarded afterwards: the running (or suspended) frame keeps using '
                           'the slot while every closure that captured the variable now has its own copy', f.loc(f.blocks[cb]['t'].get('sp'))):
                continue
            got = closer_identity(f, org, cb)
            want = set()
            for bi, name in lowers.items():
                if bi in f.reachable_blocks(cb):
                    want |= {('#slot_base',)} if name == 'frames.pop' else height_identity(f, org, bi, name.replace('yarel::vm::Vm::pop', STACK + 'pop'))
            r.check(bool(want & got), key + ' / closes exactly the dropped region', 'upvalues are closed from %s but the stack is only lowered to %s: variables below the new '
                    'height that stay live are closed too' % (sorted(map(str, got))[:3], sorted(map(str, want))[:3]), f.loc(f.blocks[cb]['t'].get('sp')))


def s6(rep, w):
    """S1 for frames: a call frame is removed only after the open upvalues that point into its slots were closed -- also when the
    slots themselves are not cut off the stack afterwards (the last frame of a finishing fiber: the fiber's stack dies with the
    fiber object, while a closure that escaped from the body lives on)"""
    c = w.yarel
    r = rep.rule('S6', 'every removal of call frames is dominated by close_upvalues in the same function', floor=3)
    n = 0
    for f in sorted(c.fns.values(), key=lambda x: x.path):
        if not f.path.startswith('yarel::vm::Vm::'):
            continue
        org = None
        ev = []
        for bi, t in f.calls():
            nm = strip_generics(callee_name(t) or '')
            if nm in ('std::vec::Vec::truncate', 'std::vec::Vec::pop', 'std::vec::Vec::clear', 'std::vec::Vec::remove') and t['args']:
                if org is None:
                    org = origins(f)
                if roles.resolve(w)['frames'] in operand_fields(f, org, t['args'][0]):
                    ev.append((bi, nm.rsplit('::', 1)[-1]))
        if not ev:
            continue
        dom = f.dominators()
        closers = {bi for bi, t in f.calls() if callee_name(t) in CLOSERS}
        for bi, what in ev:
            n += 1
            r.check(any(cb in dom.get(bi, ()) for cb in closers), '%s / frames.%s' % (f.path, what),
                    'call frames are removed on a path that has not closed the upvalues pointing into them: a closure that captured a variable of the removed frame keeps reading the '
                    'dead slot (for the last frame of a fiber: memory of a stack that is freed with the fiber)', f.loc(f.blocks[bi]['t'].get('sp')))
    if n < 3:
        raise Broken('C06', 'floor', 'frame removals found: %d' % n)


def s7(rep, w):
    """a name that is not declared locally resolves to an enclosing function's variable or to the module global looked up when the use
    runs. The hidden local the compiler puts into slot zero of every function (the callee, or the receiver of a method) must therefore
    carry a name no program-chosen identifier can shadow-match: one of the compiler's own constants ("", "self", "Self"), never the
    function's name or any other text from the source -- otherwise `f` inside `fn f` silently becomes a local and stops seeing a later
    rebinding of f."""
    r = rep.rule('S7', 'the hidden slot-zero local is named by a compiler constant, never by text from the source', floor=1)
    f = w.require_fn('yarel::compiler::Compiler::new', 'C06')
    org = origins(f)
    n = 0
    for b in f.blocks:
        for s_ in b['s']:
            rr = s_.get('r', {})
            if rr.get('rv') != 'agg' or rr.get('adt') != 'yarel::compiler::Local':
                continue
            for fn_, o in zip(rr.get('fn') or [], rr['ops']):
                if fn_ != 'name':
                    continue
                n += 1
                roots, work, seen = set(), [op_place(o)['l']] if op_place(o) else [], set()
                while work:
                    l = work.pop()
                    if l in seen:
                        continue
                    seen.add(l)
                    for q in org.get(l, ()):
                        if q[0][0] == 'call':
                            args = f.blocks[q[0][1]]['t']['args']
                            nm = strip_generics(q[0][2])
                            if args and (nm.endswith('::to_owned') or nm.endswith('::to_string') or nm.endswith('::from') or nm.endswith('::into') or nm.endswith('::clone')) and op_place(args[0]):
                                work.append(op_place(args[0])['l'])
                            else:
                                roots.add(q[0][2])
                        elif q[0][0] == 'const':
                            continue
                        else:
                            roots.add(str(q[0]))
                r.check(not roots, 'Compiler::new: slot zero is named by string constants only', 'the hidden local in slot zero gets its name from %s: an identifier in the function body that '
                        'happens to match it is compiled as a read of slot zero instead of the variable the source names' % sorted(roots)[:3], f.loc(s_.get('sp')))
    if n < 1:
        raise Broken('C06', 'anchor', 'Compiler::new: the slot-zero Local is not built here')


def s8(rep, w, prop='C06'):
    """abandoning a run gives up every fiber that was waiting for the failing one, not only the active fiber: the function that
    tears the active fiber down after an uncaught error closes upvalues inside a loop that steps along the `caller` link.
    (Until fix a2081e8 only the active fiber was closed; a closure made by the *calling* fiber kept an open upvalue into a stack
    that is freed when that fiber becomes unreachable.)"""
    r = rep.rule('S8', 'an uncaught error closes the captured variables of every fiber on the chain of callers, not only of the active fiber', floor=2)
    f = w.require_fn(VM + 'reset_stack', prop)
    closes = [bi for bi, t in f.calls() if (callee_name(t) or '').endswith('ObjFiber::close_upvalues')]
    if not closes:
        r.bad('reset_stack closes upvalues in a loop', 'reset_stack closes no upvalues at all: every closure that captured a variable of the abandoned run keeps '
              'pointing into a value stack that is cleared and later freed', f.loc())
        r.bad('the loop steps along ObjFiber.caller', 'reset_stack does not visit the fibers that called the failing one', f.loc())
        return
    reach = {b: f.reachable_blocks(b) for b in closes}
    for cb in closes:
        cyc = {b for b in reach[cb] if cb in f.reachable_blocks(b)} if any(cb in f.reachable_blocks(x) for x in f.succs()[cb]) else set()
        r.check(bool(cyc), 'reset_stack closes upvalues in a loop', 'reset_stack closes the open upvalues of one fiber only: the fibers that called it '
                '(and can never be resumed) keep theirs open, pointing into value stacks that are freed with the fiber objects', f.loc(f.blocks[cb]['t'].get('sp')))
        follows = False
        for b in cyc:
            for s_ in f.blocks[b]['s']:
                rr = s_.get('r', {})
                pl = rr.get('p') if rr.get('rv') == 'ref' else op_place(rr.get('o', {}) or {})
                if pl and any(isinstance(e, dict) and e.get('n') == 'caller' for e in pl.get('p', [])):
                    follows = True
        r.check(follows, 'the loop steps along ObjFiber.caller', 'the loop in reset_stack does not follow the caller link of the fiber it has just closed', f.loc())


def s9(rep, w, prop='C06'):
    """an open upvalue is a raw address into its fiber's value stack (and the interpreter keeps `top` as a raw pointer too): the
    storage behind a Stack is therefore allocated once and never replaced while the stack is in use - only the constructors
    (new / default / clone) assign it. A stack that reallocates when it grows leaves every open upvalue pointing at the old block."""
    r = rep.rule('S9', 'the storage of the value stack is assigned only when the stack is created (it never moves while captured variables point into it)', floor=1)
    c = w.yarel
    ST = 'yarel::stack::Stack'
    a = c.adts.get(ST)
    if a is None:
        raise Broken(prop, 'anchor', 'type Stack not found')
    storage = [fd['n'] for fd in a['variants'][0]['fields'] if not c.tstr(fd['t']).startswith('*')]
    writers = {}
    for g in c.fns.values():
        for bi in g.normal_blocks():
            for s_ in g.blocks[bi]['s']:
                d = s_.get('d') or {}
                ps = d.get('p') or []
                if ps and isinstance(ps[-1], dict) and ps[-1].get('n') in storage and c01.base_type_before_last(g, d) == ST:
                    writers.setdefault(g.path, g.loc(s_.get('sp')))
    ctor = {p_ for p_ in writers if p_.rsplit('::', 1)[-1] in ('new', 'default', 'clone', 'clone_from')}
    r.ok('constructors that build the storage: %s' % sorted(x.rsplit('::', 2)[-2] + '::' + x.rsplit('::', 1)[-1] for x in ctor))
    for p_, loc in sorted(writers.items()):
        if p_ in ctor:
            continue
        if _repoints_upvalues(w, c.fns[p_], storage, ST):
            r.ok('%s moves the storage and then re-points every open upvalue of the fiber' % p_.replace('yarel::', ''))
            continue
        r.bad('%s replaces the storage of a Stack' % p_.replace('yarel::', ''), '%s assigns the storage block of a Stack that is already in use: open upvalues (raw addresses of captured variables) and the '
              'cached stack pointers keep pointing into the block that was replaced' % p_, loc)


def _repoints_upvalues(w, g, storage, ST):
    """after every assignment of the storage, every path to a return of g walks the fiber's open-upvalue list (reads the list
    head), and the walk stores a fresh Open address into each upvalue it visits (directly or through a helper of the crate)"""
    c = w.yarel
    UPS = 'yarel::object::ObjUpvalueState'

    def writes_open(h):
        for b in h.blocks:
            for s_ in b['s']:
                rr = s_.get('r') or {}
                d = s_.get('d') or {}
                if rr.get('rv') == 'agg' and rr.get('adt') == UPS and rr.get('v') == 'Open':
                    return True
        return False
    heads, stores, writes = set(), set(), set()
    for bi in g.normal_blocks():
        b = g.blocks[bi]
        for s_ in b['s']:
            rr = s_.get('r') or {}
            d = s_.get('d') or {}
            for pl in [rr.get('p')] + [op_place(rr.get(k) or {}) for k in ('o',)]:
                if pl and any(isinstance(x, dict) and x.get('n') == 'open_upvalues' for x in pl.get('p') or ()):
                    heads.add(bi)
            if rr.get('rv') == 'agg' and rr.get('adt') == UPS and rr.get('v') == 'Open':
                stores.add(bi)
            ps = d.get('p') or []
            if ps and isinstance(ps[-1], dict) and ps[-1].get('n') in storage and c01.base_type_before_last(g, d) == ST:
                writes.add(bi)
        t = b['t']
        if t['t'] == 'call':
            h = w.fns.get(callee_name(t) or '')
            if h is not None and h.crate is c and writes_open(h):
                stores.add(bi)
    if not (heads and stores and writes):
        return False
    # the relocation happens in a loop that starts at the list head
    looped = any(sb in g.reachable_blocks(s2) for sb in stores for s2 in g.succs()[sb]) and any(sb in g.reachable_blocks(hb) for sb in stores for hb in heads)
    return looped and all(c01.all_paths_hit(g, wb, heads) for wb in writes)


def s10(rep, w, prop='C06'):
    """every name a program can declare comes from an Identifier token, which the scanner never gives to a reserved word - that is
    what keeps `self`, `Self` and `super` (the compiler's own hidden variables) from being shadowed. A declaration whose name is
    taken from program *data* (the file name inside an import path) bypasses the scanner, so it has to be passed through it first:
    `import "m/super";` inside a method declared a local called super, and the next super.m() ran into unreachable!() (fix ac5baca)."""
    r = rep.rule('S10', 'a variable name taken from program data (an import path) is checked against the reserved words before it is declared', floor=1)
    n = 0
    for f in sorted(w.yarel.fns.values(), key=lambda x: x.path):
        if not f.file.endswith('compiler.rs'):
            continue
        decl = [bi for bi, t in f.calls() if callee_name(t) in (P + 'declare_variable', 'yarel::compiler::Compiler::add_local', P + 'parse_variable')]
        if not decl:
            continue
        org = origins(f)
        for bi, t in f.calls():
            nm = callee_name(t) or ''
            if not nm.startswith('yarel::scanner::Token::') or not t['args']:
                continue
            pl = op_place(t['args'][0])
            if pl is None or f.operand_strings(org, t['args'][0]) or op_const(t['args'][0]) is not None:
                continue        # a name the compiler spells itself
            qs = org.get(pl['l'], ())
            if not qs or all(q[0][0] == 'const' for q in qs):
                continue
            n += 1
            dom = f.dominators()
            checks = [b2 for b2, t2 in f.calls() if callee_name(t2) == 'yarel::scanner::Scanner::scan_token' and b2 in dom.get(bi, ())]
            # ... and what was scanned is the text the token is made of: the scanner is built from a string with the same origins as the name
            name_roots = {(q[0],) + tuple(x for x in q[1:] if not x.startswith('@') and x != '*') for q in qs}
            same = False
            for b2, t2 in f.calls():
                n2 = callee_name(t2) or ''
                if n2.startswith('yarel::scanner::Scanner::') and n2.rsplit('::', 1)[-1] in ('new', 'from_source') and t2['args'] and b2 in dom.get(bi, ()):
                    p2 = op_place(t2['args'][0])
                    src_roots = set()
                    work = list(org.get(p2['l'], ())) if p2 is not None else []
                    for _ in range(4):
                        nxt = []
                        for q in work:
                            if q[0][0] == 'call' and strip_generics(q[0][2]).rsplit('::', 1)[-1] in ('to_string', 'to_owned', 'from', 'clone', 'into', 'to_str', 'as_str', 'to_lowercase'):
                                a0 = f.blocks[q[0][1]]['t']['args']
                                pa = op_place(a0[0]) if a0 else None
                                nxt += list(org.get(pa['l'], ())) if pa is not None else []
                            else:
                                src_roots.add((q[0],) + tuple(x for x in q[1:] if not x.startswith('@') and x != '*'))
                        work = nxt
                    if name_roots and name_roots <= src_roots:
                        same = True
            if checks and not same:
                r.bad('%s: the text scanned for reserved words is the text of the token' % f.path.replace(P, ''),
                      '%s checks one string against the reserved words and names the variable after another (e.g. the file name with and without its extension): '
                      'the name that is declared has not been through the scanner' % f.path, f.loc(t.get('sp')))
                continue
            r.check(bool(checks), '%s: a token named by data is scanned for reserved words first' % f.path.replace(P, ''),
                    '%s builds a name token from a string that is not a compiler constant (e.g. the file name of an import path) and declares a variable with it without '
                    'passing it through the scanner: a module file called super / self shadows the compiler\'s hidden variable of that name' % f.path, f.loc(t.get('sp')))
    if n < 1:
        raise Broken(prop, 'floor', 'no data-named declaration found (import_statement names the module variable after the file)')


CERR = 'yarel::compiler::CompilerError'


def s11(rep, w, prop='C06'):
    """name resolution reports *why* it failed: LocalNotFound means "look further out", ReadVarInInitialiser means "the innermost
    declaration of this name is the variable being initialised" - and then the name must not be looked up further out. A call site
    that only asks `if let Ok(..)` cannot tell the two apart: `{ var g = || g; }` resolved g past the new variable *and* past an
    outer block's g of the same function to a global (fix 1404413). So every call in the compiler whose callee returns
    Result<_, CompilerError> looks at the error: propagates it, hands it to compiler_error, or inspects its variant."""
    r = rep.rule('S11', 'no CompilerError is dropped unseen: every result of a resolution / emission helper has its error inspected, reported or propagated', floor=8)
    c = w.yarel
    n = 0
    for f in sorted(c.fns.values(), key=lambda x: x.path):
        if not f.file.endswith('compiler.rs'):
            continue
        for bi, t in f.calls():
            name = callee_name(t) or ''
            g = w.fns.get(name)
            if g is None or g.crate is not c:
                continue
            rt = c.tstr(g.local_ty(0))
            if not (rt.startswith('std::result::Result<') and rt.rstrip('>').endswith('compiler::CompilerError')):
                continue
            n += 1
            dst = (t.get('dst') or {}).get('l')
            if dst is None:
                continue
            # locals the result is moved / copied into as a whole
            alias = {dst}
            grew = True
            while grew:
                grew = False
                for b in f.blocks:
                    for s_ in b['s']:
                        rr = s_.get('r') or {}
                        d = s_.get('d') or {}
                        if rr.get('rv') == 'use' and not d.get('p'):
                            pl = op_place(rr.get('o') or {})
                            if pl is not None and pl['l'] in alias and not pl.get('p') and d.get('l') not in alias:
                                alias.add(d['l'])
                                grew = True
            seen = False

            def err_proj(pl):
                return pl is not None and pl.get('l') in alias and any(isinstance(x, dict) and x.get('v') == 'Err' for x in pl.get('p') or ())
            for b in f.blocks:
                for s_ in b['s']:
                    rr = s_.get('r') or {}
                    cands = [rr.get('p')] + [op_place(rr.get(k) or {}) for k in ('o', 'a', 'b')] + [op_place(o) for o in rr.get('ops', [])]
                    if any(err_proj(pl) for pl in cands if pl):
                        seen = True
                tt = b['t']
                if tt['t'] == 'call':
                    for a in tt['args']:
                        pl = op_place(a)
                        if pl is not None and (err_proj(pl) or (pl['l'] in alias and not pl.get('p') and a is not None and callee_name(tt) != name)):
                            seen = True       # the error, or the whole result, goes to another function (?, map_err, unwrap_or_else, ...)
                if tt['t'] == 'return' and 0 in alias:
                    seen = True
            if 0 in alias:
                seen = True
            r.check(seen, '%s <- %s' % (f.path.replace('yarel::compiler::', ''), name.replace('yarel::compiler::', '')),
                    '%s takes the Ok value of %s and never looks at the error: "declared here but not initialised yet" (ReadVarInInitialiser) and "too many" errors are '
                    'treated like "not found", so the name is silently resolved further out / the limit is not reported' % (f.path, name), f.loc(t.get('sp')))
    if n < 8:
        raise Broken(prop, 'floor', 'call sites of CompilerError-returning helpers in compiler.rs: %d' % n)
