"""C09 fibers: F1 (the two representations of the active fiber move together), F2 (the suspended frame's ip is
saved before the active frame changes), F3 (both directions of a switch deliver a value)."""
from facts import origins, callee_name, op_place, op_const, Broken, strip_generics
import c01
from c16 import operand_fields

VM = 'yarel::vm::Vm::'
ACTIVE = {VM + 'active_fiber', VM + 'active_fiber_mut'}


def run(rep):
    for wn in ('dev', 'rel'):
        w = rep.world(wn)
        rep.guard(f1, rep, w, wn)
    w = rep.world('dev')
    rep.guard(f2, rep, w)
    rep.guard(f3, rep, w)
    rep.guard(f4, rep, w)
    rep.guard(f5, rep, w)
    rep.guard(f6, rep, w)
    rep.guard(f7, rep, w)
    rep.guard(f8, rep, w)
    rep.guard(f9, rep, w)
    rep.guard(f10, rep, w)
    rep.guard(f11, rep, w)
    rep.guard(f12, rep, w)
    rep.guard(f13, rep, w)
    rep.guard(c01.r1, rep, w)     # a suspended fiber keeps its own state: everything it holds (stack, frames, the caller link, a return parked behind a finally) is traced, unconditionally, while it waits
    import c17
    rep.guard(c17.l4, rep, w)     # the site of an exception in flight is recorded in the fiber it is in flight in (ObjFiber.error_ip): kept VM-wide, a second fiber's error
    rep.guard(c17.l10, rep, w, 'C09')   # ... overwrites or inherits it across a switch
    import c06
    rep.guard(c06.s5, rep, w)   # a yield / switch must not close the suspended fiber's upvalues (its slots stay live)
    rep.guard(c06.s6, rep, w)   # a finishing fiber closes the upvalues of its body frame before the frame goes
    rep.guard(c06.s1, rep, w)   # ... and the closer itself is unconditional
    rep.guard(c06.s9, rep, w)   # a fiber's captured variables point into its value stack: the storage never moves (no growth by reallocation)
    import c08
    rep.guard(c08.x3, rep, w)   # a finishing fiber drops its own handlers, not those of the fiber it returns to
    rep.guard(c08.x20, rep, w, 'C09')   # what a fiber hands to its caller is not kept in the slot a return is parked in: the next finally block of that fiber would resume it as a return
    rep.guard(c01.r2, rep, w)     # a suspended fiber stays reachable from the fiber that resumed it / from the VM: every handle the VM keeps is a root
    import c15
    rep.guard(c15.n1, rep, w)     # what the VM counts about fibers in one run (a nesting depth) does not carry into the next: a run that died inside nested fibers must not make later runs refuse legal calls
    rep.guard(c15.n8, rep, w, 'C09')   # ... and a depth raised on entry and lowered on exit comes down when the fibers are left by an exception


def value_key(paths):
    """reduce origin paths of a value to comparable identities: root + non-wrapper tokens"""
    out = set()
    for q in paths:
        toks = tuple(t for t in q[1:] if not t.startswith('@') and t != '*' and not t.startswith('in '))
        out.add((q[0],) + toks)
    return out


def fiber_events(w, f):
    """writes of Vm.fiber ('F') and Vm.unsafe_fiber ('U') in f: list of dict(kind, block, pos, val)"""
    c = f.crate
    org = origins(f)
    ev = []
    selfl = 1
    for bi in sorted(f.normal_blocks()):
        b = f.blocks[bi]
        for si, s in enumerate(b['s']):
            d = s.get('d')
            if not d:
                continue
            ps = d.get('p', [])
            names = [e.get('n') for e in ps if isinstance(e, dict)]
            r = s['r']
            if names and names[-1] in ('fiber', 'unsafe_fiber') and c01.base_type_before_last(f, d) == 'yarel::vm::Vm':
                kind = 'F' if names[-1] == 'fiber' else 'U'
                val = set()
                if r.get('rv') in ('use', 'cast'):
                    pl = op_place(r['o'])
                    if pl is not None:
                        val = value_key(org.get(pl['l'], {(('local', pl['l']),)}))
                        if is_none_local(f, pl['l']):
                            val = {('null',)}
                    else:
                        val = {('null',)}
                elif r.get('rv') == 'agg':
                    val = {('null',)} if not r['ops'] else value_key(set().union(*[org.get(op_place(o)['l'], set()) for o in r['ops'] if op_place(o)]))
                ev.append({'kind': kind, 'block': bi, 'pos': si, 'val': val, 'sp': s.get('sp')})
            if r.get('rv') == 'agg' and r.get('adt') == 'yarel::vm::Vm':
                ev.append({'kind': 'F', 'block': bi, 'pos': si, 'val': {('null',)}, 'sp': s.get('sp'), 'agg': True})
                ev.append({'kind': 'U', 'block': bi, 'pos': si, 'val': {('null',)}, 'sp': s.get('sp'), 'agg': True})
        t = b['t']
        if t['t'] == 'call':
            name = strip_generics(callee_name(t) or '')
            if name in ('std::option::Option::replace', 'std::option::Option::insert', 'std::option::Option::take',
                        'std::mem::replace', 'std::mem::swap', 'std::mem::take') and t['args']:
                pl = op_place(t['args'][0])
                if pl is not None and any(q[:3] == (('arg', selfl), '*', 'fiber') for q in org.get(pl['l'], ())):
                    val = set()
                    if len(t['args']) > 1:
                        p2 = op_place(t['args'][1])
                        if p2 is not None:
                            val = value_key(org.get(p2['l'], set()))
                    else:
                        val = {('null',)}
                    ev.append({'kind': 'F', 'block': bi, 'pos': 'term', 'val': val, 'sp': t.get('sp')})
    return ev


def is_none_local(f, l):
    """the local is only ever assigned `None` / a null pointer"""
    defs = []
    for b in f.blocks:
        for s in b['s']:
            d = s.get('d')
            if d and d['l'] == l and not d.get('p'):
                defs.append(s['r'])
        t = b['t']
        if t['t'] == 'call' and t['dst']['l'] == l and not t['dst'].get('p'):
            defs.append({'rv': 'call', 'name': strip_generics(callee_name(t) or '')})
    if not defs:
        return False
    for r in defs:
        if r.get('rv') == 'agg' and r.get('adt') == 'std::option::Option' and r.get('v') == 'None':
            continue
        if r.get('rv') == 'call' and r['name'] in ('std::ptr::null', 'std::ptr::null_mut'):
            continue
        return False
    return True


def calls_between(f, a, b):
    """call terminators executed after event a and before event b on some path (b reachable from a)"""
    out = []
    if a['block'] == b['block']:
        if a['pos'] == 'term':
            return None           # b precedes a in this block
        if b['pos'] != 'term' and b['pos'] < a['pos']:
            return None
        return out
    if b['block'] not in f.reachable_blocks(a['block']):
        return None
    # blocks strictly between
    can_reach_b = {x for x in f.normal_blocks() if b['block'] in f.reachable_blocks(x)}
    mid = (f.reachable_blocks(a['block']) & can_reach_b) - {b['block']}
    for x in mid:
        if x == a['block'] and a['pos'] == 'term':
            continue
        t = f.blocks[x]['t']
        if t['t'] == 'call':
            out.append((x, t))
    return out


def f1(rep, w, wn):
    c = w.yarel
    r = rep.rule('F1[%s]' % wn, 'every write of Vm.fiber is paired with a write of Vm.unsafe_fiber for the same fiber, with no use of the '
                 'active fiber in between (%s world)' % wn, floor=4)
    reach_active = w.can_reach(ACTIVE)
    for a in ACTIVE:
        w.require_fn(a, 'C09')
    n = 0
    for f in sorted(c.fns.values(), key=lambda x: x.path):
        if not f.path.startswith(VM):
            continue
        ev = fiber_events(w, f)
        fs = [e for e in ev if e['kind'] == 'F']
        us = [e for e in ev if e['kind'] == 'U']
        if not fs and not us:
            continue
        for e in fs + us:
            n += 1
            others = us if e['kind'] == 'F' else fs
            what = 'Vm.fiber' if e['kind'] == 'F' else 'Vm.unsafe_fiber'
            key = '%s / write of %s #%d' % (f.path, what, (fs if e['kind'] == 'F' else us).index(e))
            if e['val'] == {('null',)} and not e.get('agg') and e['kind'] == 'F':
                # fiber := None. Allowed when the function re-establishes both through load_fiber before any use
                ok, why = none_write_ok(w, f, e, reach_active)
                r.check(ok, key + ' (= None)', why, f.loc(e.get('sp')))
                continue
            best = None
            for o in others:
                for (x, y) in ((e, o), (o, e)):
                    cb = calls_between(f, x, y)
                    if cb is None:
                        continue
                    bad = [callee_name(t) for (_, t) in cb if (callee_name(t) in reach_active)]
                    same = bool(e['val'] & o['val']) or (e['val'] == {('null',)} and o['val'] == {('null',)})
                    cand = (not bad and same, bad, same)
                    if best is None or cand[0]:
                        best = cand
                    if cand[0]:
                        break
                if best and best[0]:
                    break
            if best is None:
                r.bad(key, '%s is written but the other representation of the active fiber is not written in this function: the '
                      'checked build (Vm.fiber) and the optimised build (Vm.unsafe_fiber) now disagree about which fiber is running' % what,
                      f.loc(e.get('sp')))
            elif not best[0]:
                if not best[2]:
                    r.bad(key, 'the two representations are written from different fibers', f.loc(e.get('sp')))
                else:
                    r.bad(key, 'between the two writes %s runs, which reads the active fiber while the representations disagree' % best[1], f.loc(e.get('sp')))
            else:
                r.ok(key)


def none_write_ok(w, f, e, reach_active):
    lf = VM + 'load_fiber'
    # every path from the write to a return either reaches load_fiber first, or returns without calling anything that
    # uses the active fiber
    start = f.succs()[e['block']] if e['pos'] == 'term' else [e['block']]
    seen = set()
    stack = list(start)
    first = True
    while stack:
        b = stack.pop()
        if b in seen:
            continue
        seen.add(b)
        t = f.blocks[b]['t']
        if t['t'] == 'call':
            n = callee_name(t)
            if n == lf:
                continue
            if n in reach_active:
                return False, 'after `fiber = None`, %s (which uses the active fiber) runs before load_fiber re-establishes it' % n
        stack.extend(f.succs()[b])
    return True, ''


def f2(rep, w):
    r = rep.rule('F2', 'the suspended frame\'s ip is saved before the active frame / fiber changes', floor=3)
    for nm, switch in (('call_closure', {'yarel::object::ObjFiber::push_call_frame'}),
                       ('load_fiber', {'std::option::Option::replace'}),
                       ('unload_fiber', {'std::option::Option::replace'})):
        f = w.require_fn(VM + nm, 'C09')
        org = origins(f)
        saves = []
        wrong_frame = []
        for bi in f.normal_blocks():
            for s in f.blocks[bi]['s']:
                d = s.get('d')
                if not d or not d.get('p'):
                    continue
                last = d['p'][-1]
                if isinstance(last, dict) and last.get('n') == 'ip' and c01.base_type_before_last(f, d) == 'yarel::object::CallFrame':
                    if s['r'].get('rv') == 'use' and 'ip' in operand_fields(f, org, s['r']['o']):
                        # ... into the *running* frame (the innermost one), not some other element of the frame list
                        roots = {q[0][2] for q in org.get(d['l'], ()) if q[0][0] == 'call'}
                        toks = {tk for q in org.get(d['l'], ()) for tk in q[1:]}
                        if any(x.endswith('current_frame_mut') or x.endswith('::last_mut') for x in roots) or '@current_frame_mut' in toks or '@last_mut' in toks:
                            saves.append(bi)
                        else:
                            wrong_frame.append(bi)
        sw = [bi for bi, t in f.calls() if strip_generics(callee_name(t) or '') in switch]
        if nm != 'call_closure':
            sw = [e['block'] for e in fiber_events(w, f) if e['kind'] == 'F']
        if not sw:
            raise Broken('C09', 'anchor', '%s: frame/fiber switch not found' % nm)
        ok = bool(saves) and all(any(b in f.reachable_blocks(s) and s not in f.reachable_blocks(b) for s in saves) for b in sw)
        r.check(ok and not wrong_frame, nm, 'the running frame\'s ip (Vm.ip) is not stored into its own CallFrame (the innermost one) before %s switches frames: when the frame is '
                'resumed it restarts from a stale address%s' % (nm, ' (the ip is stored into another element of the frame list)' if wrong_frame else ''), f.loc())
    # load_frame is the only function that loads ip/chunk/module from a frame
    for fld in ('active_chunk', 'active_module'):
        ws = sorted({g.path for (g, sp, k) in c01.field_writers(w, 'yarel::vm::Vm', fld) if k == 'store'})
        allowed = {VM + 'load_frame', VM + 'reset', VM + 'init_heap_allocated_data'}
        r.check(set(ws) <= allowed and VM + 'load_frame' in ws, 'writers of Vm.' + fld, 'Vm.%s written by %s' % (fld, ws))


def f3(rep, w):
    r = rep.rule('F3', 'a fiber switch always writes the slot that the resumed side reads as the value of call()/yield()', floor=2)
    for nm in ('load_fiber', 'unload_fiber'):
        f = w.require_fn(VM + nm, 'C09')
        sw = [e['block'] for e in fiber_events(w, f) if e['kind'] == 'F']
        lf = {bi for bi, t in f.calls() if callee_name(t) == VM + 'load_frame'}
        writes = {bi for bi, t in f.calls() if callee_name(t) in (VM + 'poke', VM + 'push')}
        if not sw or not lf:
            raise Broken('C09', 'anchor', '%s: switch / load_frame not found' % nm)
        ok = True
        for s in sw:
            seen = set()
            stack = list(f.succs()[s])
            while stack:
                b = stack.pop()
                if b in seen or b in writes:
                    continue
                seen.add(b)
                if b in lf or f.blocks[b]['t']['t'] == 'return':
                    ok = False
                    break
                stack.extend(f.succs()[b])
        r.check(ok, nm, 'on some path %s switches fibers and resumes without writing the result slot: the resumed call()/yield() expression '
                'evaluates to whatever was left on the stack' % nm, f.loc())


LINK_FIELDS = {'caller', 'fiber', 'unsafe_fiber', 'frames', 'exc_handlers', 'open_upvalues'}


def f4(rep, w):
    """an error reported by a fiber switch leaves the fibers' link state untouched: no write to caller / active fiber /
    frames / handlers can precede a freshly built Err on any path"""
    r = rep.rule('F4', 'fiber-switch errors are raised before any fiber link state is written', floor=2)
    for nm in ('load_fiber', 'unload_fiber'):
        f = w.require_fn(VM + nm, 'C09')
        org = origins(f)
        writes = []
        takes = {}      # block of an Option::take on a link field -> local holding what was taken
        for bi in sorted(f.normal_blocks()):
            for s in f.blocks[bi]['s']:
                d = s.get('d')
                if d and d.get('p'):
                    names = [e.get('n') for e in d['p'] if isinstance(e, dict) and 'n' in e]
                    if names and names[-1] in LINK_FIELDS and '*' in d['p']:
                        writes.append((bi, names[-1]))
            t = f.blocks[bi]['t']
            if t['t'] == 'call' and t['args']:
                n = strip_generics(callee_name(t) or '')
                if n in ('std::option::Option::replace', 'std::option::Option::take', 'std::option::Option::insert', 'std::mem::replace', 'std::mem::swap',
                         'std::mem::take', 'std::vec::Vec::push', 'std::vec::Vec::pop', 'std::vec::Vec::clear', 'std::vec::Vec::truncate',
                         'std::vec::Vec::retain'):
                    pl = op_place(t['args'][0])
                    toks = set()
                    for q in org.get(pl['l'], ()) if pl else ():
                        toks |= set(q[1:])
                    hit = toks & LINK_FIELDS
                    if hit:
                        writes.append((bi, sorted(hit)[0]))
                        if n.endswith(('Option::take', 'mem::take')) and not t['dst'].get('p'):
                            takes[bi] = t['dst']['l']
        errs = [bi for bi in f.normal_blocks() for s in f.blocks[bi]['s']
                if s.get('d', {}).get('l') == 0 and s['r'].get('rv') == 'agg' and s['r'].get('v') == 'Err']
        if not errs:
            raise Broken('C09', 'anchor', '%s: no error return found' % nm)
        def copies_of(l0):
            out = {l0}
            grew = True
            while grew:
                grew = False
                for b_ in f.blocks:
                    for s_ in b_['s']:
                        d_ = s_.get('d') or {}
                        rr_ = s_.get('r', {})
                        src = op_place(rr_.get('o', {}) or {}) if rr_.get('rv') == 'use' else None
                        if src is not None and not src.get('p') and src['l'] in out and not d_.get('p') and d_.get('l') not in out:
                            out.add(d_['l'])
                            grew = True
            return out

        def changed_after(wb):
            """blocks in which the write at wb has changed something: all that follow it - but taking the content of a link that turns out to
            be empty changes nothing, so for an Option::take only what follows the Some edge of a test of the taken value"""
            after = f.reachable_blocks(wb)
            if wb not in takes:
                return after
            some = set()
            found = False
            for b2 in after:
                t2 = f.blocks[b2]['t']
                if t2['t'] != 'switch' or op_place(t2['d']) is None:
                    continue
                dl = op_place(t2['d'])['l']
                for s2 in f.blocks[b2]['s']:
                    rr = s2.get('r', {})
                    if (s2.get('d') or {}).get('l') == dl and rr.get('rv') == 'discr' and rr['p']['l'] in copies_of(takes[wb]):
                        found = True
                        vals = [v for v, _ in t2['cases']]
                        for v, cb in t2['cases']:
                            if v == 1:                       # Some
                                some |= f.reachable_blocks(cb) | {cb}
                        if 1 not in vals:
                            if 0 not in vals:
                                return after
                            some |= f.reachable_blocks(t2['else']) | {t2['else']}      # cases: [None], otherwise: Some
            return some if found else after
        bad = [(wb, fld, e) for (wb, fld) in writes for e in errs if e in changed_after(wb) and e != wb]
        r.check(not bad, nm, 'a write to fiber link state (%s) can be followed by an error return: the reported error leaves a fiber pointing at '
                'the wrong caller / frame' % sorted({b[1] for b in bad}), f.loc())


def f5(rep, w):
    """a fiber that cannot run again is reported as finished whatever else is left in it: load_fiber looks at has_finished() before it
    looks at the caller link (a fiber killed by an uncaught error keeps a stale link; X3's exemption for cleared frame lists rests on
    this guard being the first)"""
    r = rep.rule('F5', 'load_fiber refuses a finished fiber before it consults any other state of that fiber', floor=1)
    f = w.require_fn(VM + 'load_fiber', 'C09')
    org = origins(f)
    dom = f.dominators()
    fin = [bi for bi, t in f.calls() if callee_name(t) == 'yarel::object::ObjFiber::has_finished']
    link = [bi for bi, t in f.calls() if strip_generics(callee_name(t) or '') in ('std::option::Option::is_some', 'std::option::Option::is_none') and t['args'] and
            'caller' in operand_fields(f, org, t['args'][0])]
    # ... or asked through a predicate of the fiber object that reads the link (`is_waiting()`)
    def reads_link(g):
        for b_ in g.blocks:
            for s_ in b_['s']:
                rr = s_.get('r', {})
                for pl in [rr.get('p')] + [op_place(o) for o in [rr.get('o'), rr.get('a'), rr.get('b')] if isinstance(o, dict)]:
                    if pl and any(isinstance(e, dict) and e.get('n') == 'caller' for e in pl.get('p', [])):
                        return True
        return False
    for bi, t in f.calls():
        g = w.fns.get(callee_name(t) or '')
        if g is not None and g.path.startswith('yarel::object::ObjFiber::') and g.path != 'yarel::object::ObjFiber::has_finished' and g.argc == 1 and reads_link(g):
            link.append(bi)
    if not fin or not link:
        raise Broken('C09', 'anchor', 'load_fiber: has_finished / caller tests not found')
    r.check(all(any(h in dom.get(l_, ()) for h in fin) for l_ in link), 'load_fiber: has_finished() is tested before the caller link',
            'load_fiber tests the caller link before has_finished(): a fiber that died with an uncaught error (frames cleared, link left behind) is reported as "already called" although it has finished', f.loc())


def f6(rep, w):
    """control comes back to a fiber in the state in which it left: the switch itself changes which fiber is active and reloads the
    machine registers from that fiber's top frame -- any other VM-wide state it overwrites (without having read it, i.e. without
    saving it for the side being suspended) is lost for the fiber that is resumed later"""
    import c08
    r = rep.rule('F6', 'a fiber switch overwrites no VM-wide state besides the active-fiber pointers and the registers reloaded from the frame', floor=2)
    lf = w.require_fn(VM + 'load_frame', 'C09')
    _, regs = c08.field_accesses(w, lf, 0)
    regs = {x for x in regs if x[0] == 'yarel::vm::Vm'}
    if not regs:
        raise Broken('C09', 'anchor', 'load_frame writes no Vm register')
    for nm in ('load_fiber', 'unload_fiber'):
        f = w.require_fn(VM + nm, 'C09')
        rd, wr = c08.field_accesses(w, f, 0)
        extra = sorted(x[1] for x in wr if x[0] == 'yarel::vm::Vm' and x not in regs and x[1] not in ('fiber', 'unsafe_fiber') and x not in rd)
        r.check(not extra, '%s writes only the active-fiber pointers (and what it saved first)' % nm,
                '%s overwrites Vm.%s without saving it: the suspended side finds that state changed when control comes back (e.g. an exception in flight '
                'through a finally block is forgotten)' % (nm, ', Vm.'.join(extra)), f.loc())


def f7(rep, w):
    """Fiber.call / Fiber.yield switch stacks themselves (they are the natives flagged `manages_stack`): when they come back -- with a value
    or with an error -- the active stack is already the way the resumed side expects it. The generic native call sequence may therefore
    remove the arguments only for natives that do not manage the stack."""
    r = rep.rule('F7', 'call_native removes the arguments only for natives that do not manage the stack themselves', floor=1)
    f = w.require_fn(VM + 'call_native', 'C09')
    dom = f.dominators()
    plain = []      # entry blocks of regions where manages_stack is known to be false
    for bi in sorted(f.normal_blocks()):
        b = f.blocks[bi]
        t = b['t']
        if t['t'] != 'switch' or op_place(t['d']) is None:
            continue
        dl = op_place(t['d'])['l']
        for s_ in b['s']:
            if s_.get('d', {}).get('l') != dl:
                continue
            rr = s_['r']
            src = rr.get('o') if rr.get('rv') in ('use', 'un') else None
            pl = op_place(src) if src else None
            if pl is None or not any(isinstance(e, dict) and e.get('n') == 'manages_stack' for e in pl.get('p', [])):
                continue
            zero = [tb for v, tb in t['cases'] if v == 0]
            if rr.get('rv') == 'use' and zero:
                plain.append(zero[0])
            elif rr.get('rv') == 'un' and rr.get('op') == 'Not':
                plain.append(t['else'])
    if not plain:
        raise Broken('C09', 'anchor', 'call_native: no test of manages_stack found')
    n = 0
    for bi, t in f.calls():
        if callee_name(t) not in (VM + 'discard', VM + 'pop') and not strip_generics(callee_name(t) or '').endswith('Vec::truncate'):
            continue
        n += 1
        r.check(any(p_ in dom.get(bi, ()) for p_ in plain), 'call_native / %s is under !manages_stack' % callee_name(t).rsplit('::', 1)[-1],
                'call_native removes stack slots (%s) also for natives that manage the stack themselves: after a failed Fiber.yield / Fiber.call the slot below the call '
                '- a live local of the caller - is overwritten by the error' % callee_name(t).rsplit('::', 1)[-1], f.loc(t.get('sp')))
    if n < 1:
        raise Broken('C09', 'floor', 'call_native: no argument removal found')


def f8(rep, w, prop='C09'):
    """what a fiber switch carries is decided by the *number* of arguments alone: `Some(top of stack)` for one argument, `None` for
    none. load_fiber / unload_fiber pop the argument exactly when they are given `Some`, so an Option that also depends on the
    argument's value ("call(nil) means call()") leaves the nil on the caller's stack: the stack height after the call then
    depends on run-time data and every later local of that function is one slot off."""
    r = rep.rule('F8', 'the value handed to load_fiber / unload_fiber is Some(top of stack) or None according to the argument count only', floor=2)
    VM_ = 'yarel::vm::Vm::'
    n = 0
    for f in sorted(w.yarel.fns.values(), key=lambda x: x.path):
        if not f.file.endswith('core.rs'):
            continue
        for bi, t in f.calls():
            if callee_name(t) not in (VM_ + 'load_fiber', VM_ + 'unload_fiber'):
                continue
            n += 1
            org = origins(f)
            arg = t['args'][-1]
            pl = op_place(arg)
            roots = set()
            for q in org.get(pl['l'], ()) if pl else ():
                if q[0][0] == 'call':
                    roots.add(q[0][2].rsplit('::', 1)[-1] if q[0][2] else '?')
                elif q[0][0] == 'const':
                    roots.add('const')
                elif q[0][0] == 'arg':
                    roots.add('arg')
            extra = sorted(x for x in roots if x not in ('peek', 'native_arg', 'unchecked_native_arg', 'const'))
            # every branch that decides between the two is a test of the argument count
            dom = f.dominators()
            defs = [b for b in f.normal_blocks() for s_ in f.blocks[b]['s'] if (s_.get('d') or {}).get('l') == (pl or {}).get('l') and not s_['d'].get('p')]
            bad_cond = []
            for b in f.normal_blocks():
                tt = f.blocks[b]['t']
                if tt['t'] != 'switch':
                    continue
                succ = f.succs()[b]
                controls = any(any(s0 in dom.get(d_, ()) for d_ in defs) and not all(s0 in dom.get(d_, ()) for d_ in defs) for s0 in succ)
                if not controls:
                    continue
                qs = org.get((op_place(tt['d']) or {}).get('l'), ())
                if not qs or not all(q[0] == ('arg', 2) for q in qs):
                    bad_cond.append(f.loc(tt.get('sp')))
            r.check(not extra and not bad_cond, '%s -> %s: Some(top) / None by argument count' % (f.path.rsplit('::', 1)[-1], callee_name(t).rsplit('::', 1)[-1]),
                    '%s builds the value it hands to %s from %s under conditions other than the argument count (%s): the switch pops the argument only when it is given Some, so '
                    'the stack height after the call depends on the argument\'s value' % (f.path, callee_name(t).rsplit('::', 1)[-1], extra or 'the top of the stack', bad_cond), f.loc(t.get('sp')))
    if n < 2:
        raise Broken(prop, 'floor', 'natives that switch fibers: %d' % n)


def f9(rep, w, prop='C09'):
    """"new" and "finished" are read off the same evidence, the fiber's frame list: a new fiber has its one frame standing at the
    first instruction, a finished - or killed - fiber has no frame. Fiber.call asks is_new() first (to check the argument count
    against the function's parameters) and only load_fiber refuses a finished fiber; an is_new() that looks at something reset_stack
    also empties (the value stack) takes a fiber killed by an earlier error for a new one."""
    import roles
    import c08
    r = rep.rule('F9', 'is_new() is decided from the frame list, like has_finished(): a fiber without frames is never new', floor=2)
    FIB = 'yarel::object::ObjFiber'
    frames = roles.resolve(w)['frames']
    for nm in ('is_new', 'has_finished'):
        g = w.require_fn(FIB + '::' + nm, prop)
        rd, _ = c08.field_accesses(w, g, 0)
        fields = sorted(n for (o, n) in rd if o == FIB)
        r.check(frames in fields, 'ObjFiber::%s reads the frame list' % nm, 'ObjFiber::%s decides from %s without looking at the frame list: after an uncaught error (reset_stack empties '
                'stack and frames alike) a dead fiber can pass for a new one, or the two predicates can both hold' % (nm, fields), g.loc())


def f10(rep, w):
    """the link to the fiber that is waiting for this one is the state of the *current* switch, not of the first: every switch into a fiber
    writes the link (from the fiber that was active), every switch out of it clears it - on every path that completes the switch. A link that is
    written only when empty, or left behind by a yield, makes a fiber resumed by someone else hand its next value to its first caller."""
    r = rep.rule('F10', 'load_fiber writes the entered fiber\'s caller link, and unload_fiber clears the left fiber\'s, on every path that completes the switch', floor=2)
    import roles
    for nm, what in (('load_fiber', 'written'), ('unload_fiber', 'cleared')):
        f = w.require_fn('yarel::vm::Vm::' + nm, 'C09')
        stores = set()
        for bi in f.normal_blocks():
            for s_ in f.blocks[bi]['s']:
                d = s_.get('d') or {}
                if d.get('p') and isinstance(d['p'][-1], dict) and d['p'][-1].get('n') == 'caller':
                    stores.add(bi)
        # a store made through a method of the fiber (set_caller(..) / take()) counts as well
        for bi, t in f.calls():
            g = w.fns.get(callee_name(t) or '')
            if g is not None and g.path.startswith('yarel::object::ObjFiber::'):
                if any((s2.get('d') or {}).get('p') and isinstance(s2['d']['p'][-1], dict) and s2['d']['p'][-1].get('n') == 'caller' for b2 in g.blocks for s2 in b2['s']):
                    stores.add(bi)
            n_ = strip_generics(callee_name(t) or '')
            if n_.endswith(('Option::take', 'Option::replace', 'mem::take', 'mem::replace')) and t['args']:
                pl = op_place(t['args'][0])
                org = origins(f)
                if pl is not None and ('caller' in operand_fields(f, org, t['args'][0])):
                    stores.add(bi)
        errs = set()
        for bi in f.normal_blocks():
            for s_ in f.blocks[bi]['s']:
                rr = s_.get('r', {})
                if (s_.get('d') or {}).get('l') == 0 and rr.get('rv') == 'agg' and rr.get('v') == 'Err':
                    errs.add(bi)
        ok = bool(stores) and c01.all_paths_hit(f, None, stores | errs)
        r.check(ok, '%s: the caller link is %s on every completed switch' % (nm, what),
                '%s can complete a switch without the caller link being %s (stores in blocks %s): the link then describes an earlier switch, and the next yield / return of '
                'that fiber goes to the wrong fiber' % (nm, what, sorted(stores)), f.loc())


def f11(rep, w):
    """the fibers a program can hold are the ones it made: every fiber value is built from a fiber that was allocated for it (Fiber.new). The
    interpreter's own root fiber - the one running the main script - has no caller link, so the "already running" test does not cover it; handed
    out as a value it can be called from one of its own callees, and the caller links form a cycle."""
    r = rep.rule('F11', 'every fiber value handed to the program is made from a newly allocated fiber (the active / root fiber is never exposed)', floor=1)
    n = 0
    for f in sorted(w.yarel.fns.values(), key=lambda x: x.path):
        org = None
        for b in f.blocks:
            for s_ in b['s']:
                rr = s_.get('r', {})
                if rr.get('rv') == 'agg' and rr.get('adt') == 'yarel::value::Value' and rr.get('v') == 'ObjFiber' and rr.get('ops'):
                    org = org or origins(f)
                    pl = op_place(rr['ops'][0])
                    roots = org.get(pl['l'], ()) if pl is not None else ()
                    if not roots:
                        continue
                    # re-wrapping a fiber that already was a value (taken out of a Value / an argument slot) is not an exposure
                    if all(any(x.startswith('as ObjFiber') or x == '@try_as_obj_fiber' for x in q[1:]) for q in roots):
                        continue
                    n += 1
                    bad = sorted({('Vm.' + '.'.join(x for x in q[1:] if x not in ('*',) and not x.startswith('@'))) if q[0][0] == 'arg' else q[0][2].rsplit('::', 1)[-1]
                                  for q in roots if not (q[0][0] == 'call' and ('new_root_obj_fiber' in q[0][2] or q[0][2].endswith(('Root::<T>::new', 'ObjFiber::new'))))})
                    r.check(not bad, '%s / fiber value made from a new fiber' % f.path.replace('yarel::', ''),
                            '%s makes a fiber value from %s: a fiber the interpreter is running on (the root fiber has no caller link, so calling it from a callee is not refused '
                            'and the links form a cycle)' % (f.path, bad), f.loc(s_.get('sp')))
    if n == 0:
        raise Broken('C09', 'anchor', 'no construction of a fiber value found')


def fiber_fields_written(w, f, fields, depth=0, seen=None):
    """fields of ObjFiber that f changes: assigned, handed to clear / truncate / take / replace, or changed by an ObjFiber method f calls"""
    c = w.yarel
    seen = seen if seen is not None else set()
    if f.path in seen or depth > 3:
        return set()
    seen.add(f.path)
    wr = set()
    for bi in f.normal_blocks():
        for s_ in f.blocks[bi]['s']:
            d = s_.get('d') or {}
            names = [e.get('n') for e in d.get('p', []) if isinstance(e, dict) and 'n' in e]
            if names and names[0] in fields and 'ObjFiber' in c.tstr(f.local_ty(d['l'])):
                wr.add(names[0])
    org = None
    for bi, t in f.calls():
        nm = callee_name(t) or ''
        tail = strip_generics(nm).rsplit('::', 1)[-1]
        if tail in ('clear', 'truncate', 'take', 'replace', 'drain') and t['args'] and (not nm.startswith('yarel::') or nm.startswith('yarel::stack::')):
            org = org or origins(f)
            pl = op_place(t['args'][0])
            if pl is not None:
                for e in pl.get('p', []):
                    if isinstance(e, dict) and e.get('n') in fields:
                        wr.add(e['n'])
                for q in org.get(pl['l'], ()):
                    wr |= {tok for tok in q[1:] if tok in fields}
        g = w.fns.get(nm)
        if g is not None and g.path.startswith('yarel::object::ObjFiber::') and g.path != 'yarel::object::ObjFiber::new':
            wr |= fiber_fields_written(w, g, fields, depth + 1, seen)
    return wr


def f12(rep, w, prop='C09'):
    """a fiber starts with nothing of an earlier run in it. ObjFiber::new builds every field; code that instead *re-initialises* an existing fiber
    for another run (a pooled root fiber, a restart method) has to put back every per-run field - a handler list, an open-upvalue list or a
    parked return left over from the earlier run is acted on by the next one (an error of the new script "caught" inside the old script's
    code). A function counts as a re-initialiser when it resets three quarters or more of the per-run fields (unwinding to a handler touches about half of them); the fields it leaves are the violation."""
    r = rep.rule('F12', 'code that re-initialises a fiber for another run resets every per-run field of it', floor=0)
    c = w.yarel
    adt = c.adts.get('yarel::object::ObjFiber')
    if adt is None:
        raise Broken(prop, 'anchor', 'ObjFiber not found')
    fields = [fd['n'] for fd in adt['variants'][0]['fields']]
    per_run = [n for n in fields if n != 'class']
    if len(per_run) < 8:
        raise Broken(prop, 'floor', 'ObjFiber has only %d per-run fields' % len(per_run))
    n = 0
    for f in sorted(c.fns.values(), key=lambda x: x.path):
        if f.path == 'yarel::object::ObjFiber::new' or f.kind == 'Closure':
            continue
        wr = fiber_fields_written(w, f, set(per_run)) & set(per_run)
        if 4 * len(wr) >= 3 * len(per_run):
            n += 1
            rest = sorted(set(per_run) - wr)
            r.check(not rest, '%s / resets every per-run field' % f.path.replace('yarel::', ''),
                    '%s re-initialises a fiber (%d of its %d per-run fields) but leaves %s as the earlier run left them: the next run acts on that left-over state'
                    % (f.path, len(wr), len(per_run), rest), f.loc())
    r.ok('census of fiber re-initialisers: %d' % n)


def f13(rep, w):
    """"a wrong argument count ... [is] reported as [an error] that leave[s] every fiber's state untouched": in the built-ins of the Fiber class
    (the natives that take their receiver with try_as_obj_fiber) and in load_fiber / unload_fiber, nothing of a fiber is changed on a path that
    still can end in an error: a mutable borrow of a fiber cell, or a call of an ObjFiber method taking `&mut self`, is never followed by an
    error exit. (Marking the fiber "started" before the argument count is checked makes a refused first call consume the fiber's start.)"""
    import c08
    r = rep.rule('F13', 'the fiber built-ins change no fiber on a path that can still end in an error', floor=3)
    c = w.yarel
    fns = [f for f in c.fns.values() if f.file.endswith('core.rs') and f.kind != 'Closure' and
           any((callee_name(t) or '').endswith('try_as_obj_fiber') for _, t in f.calls())]
    fns += [c.fns[n] for n in ('yarel::vm::Vm::load_fiber', 'yarel::vm::Vm::unload_fiber') if n in c.fns]
    if len(fns) < 3:
        raise Broken('C09', 'anchor', 'fiber built-ins not found (%d)' % len(fns))
    for f in sorted(fns, key=lambda x: x.path):
        errs = c08.err_exits(f)
        # a callee that can fail counts as an error exit at its `?` (from_residual) - covered by err_exits
        muts = []
        for bi, t in f.calls():
            nm = callee_name(t) or ''
            sn = strip_generics(nm)
            if sn == 'std::cell::RefCell::borrow_mut' and 'ObjFiber' in ' '.join(c.tstr(a) for a in (t['f'].get('ra') or t['f'].get('a') or [])):
                muts.append((bi, 'borrow_mut'))
            g = w.fns.get(nm)
            if g is not None and g.path.startswith('yarel::object::ObjFiber::') and g.argc >= 1 and '&mut' in c.tstr(g.local_ty(1)):
                muts.append((bi, g.name))
            if f.path.startswith('yarel::vm::Vm::') and nm in ('yarel::vm::Vm::active_fiber_mut', 'yarel::vm::Vm::pop', 'yarel::vm::Vm::push', 'yarel::vm::Vm::poke'):
                muts.append((bi, nm.rsplit('::', 1)[-1]))
        for bi in f.normal_blocks():
            for s_ in f.blocks[bi]['s']:
                d = s_.get('d') or {}
                names = [e.get('n') for e in d.get('p', []) if isinstance(e, dict) and 'n' in e]
                if names and f.path.startswith('yarel::vm::Vm::') and names[0] in ('fiber', 'unsafe_fiber'):
                    muts.append((bi, 'Vm.' + names[0]))
        if f.path == 'yarel::vm::Vm::unload_fiber':
            # Fiber.yield at module level: the argument slot is popped and the running frame's saved ip refreshed before the refusal; both are
            # rewritten by whatever runs next (the handler search truncates the stack, every switch saves the ip again) - not fiber state a
            # program can observe. What must not precede the refusal is the switch itself.
            muts = [(bi, what) for bi, what in muts if what not in ('pop', 'active_fiber_mut', 'current_frame_mut')]
        bad = sorted({what for bi, what in muts if any(e in f.reachable_blocks(bi) and e != bi for e in errs)})
        r.check(not bad, '%s / no change before the last error exit' % f.path.replace('yarel::', ''),
                '%s changes fiber state (%s) and can still end in an error afterwards: the refused operation has already altered the fiber' % (f.path, ', '.join(bad)), f.loc())
