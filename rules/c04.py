"""C04 accepted programs are safe to run blindly: the compiler<->VM contract in the source.
B1 operand layout agreement, B2 jump arithmetic agreement, B3 every placeholder is patched, B4 narrowing casts are
guarded (interval analysis), B5 limit coherence, B6 line table parallel to code."""
from facts import origins, callee_name, op_place, op_const, Broken, strip_generics
import c01
import c17
import emit
from c16 import operand_fields

VM = 'yarel::vm::Vm::'
P = emit.P
COMPILER = 'yarel::compiler::Compiler::'
READS = [VM + 'read_byte', VM + 'read_short', VM + 'read_constant', VM + 'read_string']


def run(rep):
    w = rep.world('dev')
    rep.guard(b1, rep, w)
    rep.guard(b2, rep, w)
    rep.guard(b2w, rep, w)
    rep.guard(b7, rep, w)
    rep.guard(b3, rep, w)
    rep.guard(b8, rep, w)
    rep.guard(b9, rep, w)
    rep.guard(b10, rep, w)
    rep.guard(b11, rep, w)
    rep.guard(b12, rep, w)
    rep.guard(b13, rep, w)
    rep.guard(b14, rep, w)
    rep.guard(b15, rep, w)
    import c06
    rep.guard(c06.s12, rep, w, 'C04')   # the emitted Pop / CloseUpvalue sequence matches the stack from the top down
    import c04_narrow
    rep.guard(c04_narrow.b4, rep, w)
    rep.guard(c04_narrow.b4n, rep, w)
    rep.guard(b5, rep, w)
    rep.guard(c17.l2, rep, w)
    import c08
    rep.guard(c08.x8, rep, w)   # JumpFinally is emitted only where a handler of the same function is registered at run time
    rep.guard(c08.x4, rep, w)   # every try statement ends in EndFinally: the code address a JumpFinally parks is resumed by that statement, not by whichever EndFinally runs next (another function's chunk)
    import c03, c06
    rep.guard(c03.t4, rep, w)   # every encoding limit is refused on its exceeding side (a dropped limit error lets truncated operands through)
    rep.guard(c06.s2, rep, w)   # a captured local leaves the stack through CloseUpvalue on every exit path: the closure keeps naming that variable
    rep.guard(c06.s10, rep, w, 'C04')  # a declared name that shadows the hidden `self` / `super` makes the code for them load the wrong slot (a module where a class is expected)
    import c09
    rep.guard(c09.f8, rep, w, 'C04')   # the stack height after Fiber.call / Fiber.yield must not depend on the argument's value
    import c07
    rep.guard(c07.k4, rep, w)   # `super` inside a lambda / nested function of a method loads the method's receiver, not slot zero of the function it is written in


# ---- VM side: bytes consumed ----------------------------------------------------------------------------------

_prim = {}


def prim_size(w, path):
    """bytes by which a primitive reader advances ip: the constant offset stored back into Vm.ip"""
    if path in _prim:
        return _prim[path]
    f = w.fns[path]
    org = origins(f)
    size = None
    for bi, t in f.calls():
        n = strip_generics(callee_name(t) or '')
        if n.endswith('::offset') or n.endswith('::add'):
            k = op_const(t['args'][1]) if len(t['args']) > 1 else None
            if k is not None and 'v' in k:
                # is the result stored into self.ip?
                d = t['dst']['l']
                for b in f.blocks:
                    for s in b['s']:
                        dd = s.get('d', {})
                        if dd.get('p') and isinstance(dd['p'][-1], dict) and dd['p'][-1].get('n') == 'ip':
                            pl = op_place(s['r'].get('o', {}) or {})
                            if pl is not None and pl['l'] == d:
                                size = k['v']
    _prim[path] = size
    return size


_cons = {}


def consumption(w, path, depth=0):
    """set of operand-size sequences a Vm function consumes on its non-error paths"""
    if path in _cons:
        return _cons[path]
    f = w.fns.get(path)
    if f is None or depth > 5:
        return {()}
    ps = prim_size(w, path) if path in (VM + 'read_byte', VM + 'read_short') else None
    if ps is not None:
        _cons[path] = {(ps,)}
        return _cons[path]
    _cons[path] = {()}
    res = paths_consumption(w, f, 0, None, depth)
    _cons[path] = res
    return res


ERR_ROUTES = {VM + 'try_handle_error', VM + 'unwind_stack'}


def paths_consumption(w, f, start, region, depth):
    """enumerate paths from `start` (within `region` if given) and collect the sequences of consumed sizes;
    paths through try_handle_error/unwind_stack/diverging blocks are error paths and are dropped"""
    out = set()
    limit = [4000]

    def step(b, seq, onpath):
        if limit[0] <= 0:
            return
        limit[0] -= 1
        if region is not None and b not in region:
            out.add(tuple(seq))
            return
        if b in onpath:
            # loop: what was consumed since the first visit of b is the loop body
            i = onpath[b]
            body = tuple(seq[i:])
            out.add(tuple(seq[:i]) + (('*', body),) if body else tuple(seq))
            return
        t = f.blocks[b]['t']
        seq2 = list(seq)
        if t['t'] == 'call':
            n = callee_name(t)
            if n in ERR_ROUTES:
                return
            if n is not None and n.startswith(VM) and n in w.fns:
                sub = consumption(w, n, depth + 1)
                if sub != {()}:
                    if t.get('to') is None:
                        return
                    op2 = dict(onpath)
                    op2[b] = len(seq)
                    for sseq in sub:
                        step(t['to'], seq2 + list(sseq), op2)
                    return
            if t.get('to') is None:
                return       # diverges
        if t['t'] in ('return',):
            out.add(tuple(seq2))
            return
        if t['t'] in ('unreachable', 'resume', 'terminate'):
            return
        op2 = dict(onpath)
        op2[b] = len(seq)
        for s in f.succs()[b]:
            step(s, seq2, op2)
    step(start, [], {})
    return out or {()}


def normalise(seqs):
    """merge loop unrollings: (2, 1, 1, ('*',(1,1))) and (2,) and (2, ('*',(1,1))) -> (2, ('*',(1,1)))"""
    out = set()
    stars = {s for q in seqs for s in q if isinstance(s, tuple)}
    for q in seqs:
        base = tuple(x for x in q if not isinstance(x, tuple))
        st = tuple(x for x in q if isinstance(x, tuple))
        out.add((base, st))
    if stars:
        # all star-free prefixes must agree up to whole loop bodies
        star = sorted(stars)[0]
        body = star[1]
        bases = set()
        for base, st in out:
            b = list(base)
            while len(b) >= len(body) and tuple(b[-len(body):]) == body and len(b) > min(len(x[0]) for x in out):
                b = b[:-len(body)]
            bases.add(tuple(b))
        return {(b + (star,)) for b in bases}
    return {base for base, st in out}


def vm_layouts(w):
    """opcode name -> set of layouts consumed by its arm in Vm::run"""
    runf = w.require_fn(VM + 'run', 'C04')
    ops = emit.opcode_table(w)
    dom = runf.dominators()
    res = {}
    for bi in sorted(runf.normal_blocks()):
        b = runf.blocks[bi]
        t = b['t']
        if t['t'] != 'switch':
            continue
        pl = op_place(t['d'])
        if pl is None:
            continue
        cmpv = None
        consts = {}
        for s in b['s']:
            rr = s.get('r', {})
            if rr.get('rv') == 'cast' and op_const(rr['o']) is not None and not s['d'].get('p'):
                consts[s['d']['l']] = op_const(rr['o']).get('v')
            if rr.get('rv') == 'bin' and rr['op'] == 'Eq' and s['d']['l'] == pl['l']:
                for o in (rr['a'], rr['b']):
                    p2 = op_place(o)
                    if p2 is not None and p2['l'] in consts:
                        cmpv = consts[p2['l']]
        if cmpv is None or cmpv not in ops:
            continue
        true_t = t['else']
        region = {x for x in dom if true_t in dom[x]}
        seqs = paths_consumption(w, runf, true_t, region, 0)
        res[ops[cmpv]] = normalise(seqs)
    return res


# ---- compiler side: bytes emitted -------------------------------------------------------------------------------

HELPER_FN = {'constant_op': P + 'emit_constant_op', 'jump': P + 'emit_jump', 'loop': P + 'emit_loop', 'constant': P + 'emit_constant'}
_base = {}


def helper_base(w, kind):
    """operand bytes an emitter helper writes after its opcode, read from its body: the sum of raw bytes on every
    error-free path (must be the same on all of them)"""
    if kind in _base:
        return _base[kind]
    f = w.require_fn(HELPER_FN[kind], 'C04')
    evs = {bi: (k, o, d) for (bi, k, o, d) in emit.emissions(w, f)}
    err = emit.error_blocks(f)
    totals = set()

    def walk(b, acc, seen):
        if b in seen:
            return
        if b in err:
            # emit_loop reports "Loop body too large" and carries on: the bytes are still written
            pass
        n = acc
        if b in evs:
            k, o, d = evs[b]
            if k == 'byte' and o is None and not d.get('dynop'):
                n += 1
            elif k == 'bytes' and o is None and not d.get('dynop'):
                n += 2
            elif k == 'bytes' and (o is not None or d.get('dynop')):
                n += 1
            elif k in HELPER_FN and k != kind:
                n += helper_base(w, k)
        t = f.blocks[b]['t']
        if t['t'] == 'return':
            totals.add(n)
            return
        for s_ in f.succs()[b]:
            walk(s_, n, seen | {b})
    walk(0, 0, frozenset())
    if len(totals) != 1:
        raise Broken('C04', 'anchor', 'emitter helper %s writes %s operand bytes depending on the path' % (HELPER_FN[kind], sorted(totals)))
    _base[kind] = totals.pop()
    return _base[kind]


def emitter_layouts(w):
    """opcode -> {layout: [sites]} from every emitter call site in compiler.rs"""
    c = w.yarel
    may_emit = w.can_reach({'yarel::chunk::Chunk::write'})
    res = {}
    dyn_sites = []
    for f in sorted(c.fns.values(), key=lambda x: x.path):
        if not f.file.endswith('compiler.rs') or (f.path in emit.EMITTERS and emit.EMITTERS[f.path] not in ('scope_end', 'return')):
            continue      # the primitive emitters write what they are given; the compound ones (scope end, return) choose opcodes themselves
        evs = {bi: (k, o, d) for (bi, k, o, d) in emit.emissions(w, f)}
        if not evs:
            continue
        uses_arg_sizes = any(callee_name(t) == 'yarel::chunk::OpCode::arg_sizes' for _, t in f.calls())
        for bi, (kind, opn, det) in sorted(evs.items()):
            if kind in ('return', 'scope_end'):
                continue
            sizes = []
            names = []
            site = '%s:%s' % (f.path.replace(P, ''), f.loc(f.blocks[bi]['t'].get('sp')).rsplit(':', 1)[-1])
            if det.get('dynop') or (kind in ('constant_op', 'jump') and opn is None and uses_arg_sizes):
                if uses_arg_sizes:
                    continue        # same logic as emit_variable_op, inline: width chosen from arg_sizes (checked per variable opcode)
            if kind == 'byte':
                if opn is None:
                    continue        # raw operand byte: accounted to the opcode before it
                names = [opn]
            elif kind == 'bytes':
                if opn is None:
                    continue
                names = [opn]
                if det.get('second_op'):
                    # two opcodes in one call: [Op1, Op2]
                    res.setdefault(opn, {}).setdefault((), []).append(site)
                    trail, star = trailing_raw(w, f, bi, evs, may_emit)
                    lay2 = tuple(trail) + ((star,) if star else ())
                    res.setdefault(det['second_op'], {}).setdefault(lay2, []).append(site)
                    continue
                sizes.append(1)
            elif kind == 'variable_op':
                dyn_sites.append((f, bi, 'variable_op'))
                continue
            elif kind in ('constant_op', 'jump'):
                if opn is None:
                    # opcode chosen at run time of the compiler: every OpCode aggregate that can flow into the operand
                    names = sorted(dynamic_opcodes(w, f, evs, bi))
                    if not names:
                        dyn_sites.append((f, bi, kind))
                        continue
                else:
                    names = [opn]
                sizes.append(helper_base(w, kind))
            elif kind == 'loop':
                names = ['Loop']
                sizes.append(helper_base(w, 'loop'))
            elif kind == 'constant':
                names = ['Constant']
                sizes.append(helper_base(w, 'constant'))
            # trailing raw operand bytes on the straight line after this call
            trail, star = trailing_raw(w, f, bi, evs, may_emit)
            sizes += trail
            lay = tuple(sizes) + ((star,) if star else ())
            for nme in names:
                res.setdefault(nme, {}).setdefault(lay, []).append('%s:%s' % (f.path.replace(P, ''), f.loc(f.blocks[bi]['t'].get('sp')).rsplit(':', 1)[-1]))
    return res, dyn_sites


def dynamic_opcodes(w, f, evs, bi):
    t = f.blocks[bi]['t']
    pl = op_place(t['args'][1])
    out = set()
    if pl is None:
        return out
    target = pl['l']
    # flow-insensitive: OpCode aggregates assigned (possibly through copies) to the operand local
    work = [target]
    seen = set()
    while work:
        l = work.pop()
        if l in seen:
            continue
        seen.add(l)
        for b in f.blocks:
            for s in b['s']:
                d = s.get('d')
                if d and d['l'] == l and not d.get('p'):
                    r = s['r']
                    if r.get('rv') == 'agg' and r.get('adt') == 'yarel::chunk::OpCode':
                        out.add(r['v'])
                    elif r.get('rv') == 'use':
                        p2 = op_place(r['o'])
                        if p2 is not None and not p2.get('p'):
                            work.append(p2['l'])
    return out


def trailing_raw(w, f, bi, evs, may_emit):
    """sizes of raw operand bytes emitted on the straight line after block bi, and a loop marker if the straight
    line runs into a loop that only emits raw bytes"""
    sizes = []
    b = f.blocks[bi]['t'].get('to')
    steps = 0
    while b is not None and steps < 40:
        steps += 1
        t = f.blocks[b]['t']
        if t['t'] == 'call':
            n = callee_name(t)
            if b in evs:
                kind, opn, det = evs[b]
                if kind == 'byte' and opn is None:
                    sizes.append(1)
                elif kind == 'bytes' and opn is None:
                    sizes.append(2)
                else:
                    return sizes, None
            elif n in may_emit or n is None:
                return sizes, None
            b = t.get('to')
        elif t['t'] in ('goto',):
            b = t['to']
        elif t['t'] == 'drop':
            b = t['to']
        elif t['t'] == 'switch':
            # loop header whose body only emits raw bytes?
            body_sizes = loop_raw_body(w, f, b, evs, may_emit)
            if body_sizes:
                return sizes, ('*', tuple(body_sizes))
            return sizes, None
        else:
            return sizes, None
    return sizes, None


def loop_raw_body(w, f, header, evs, may_emit):
    """if `header` is the test of a loop (some successor leads back to it) whose body emits only raw bytes, return
    their sizes"""
    for s in f.succs()[header]:
        reach = f.reachable_blocks(s, avoid={header})
        back = [x for x in reach if header in f.succs()[x]]
        if not back:
            continue
        sizes = []
        ok = True
        for x in sorted(reach):
            t = f.blocks[x]['t']
            if t['t'] == 'call':
                if x in evs:
                    kind, opn, det = evs[x]
                    if kind == 'byte' and opn is None:
                        sizes.append(1)
                    elif kind == 'bytes' and opn is None:
                        sizes.append(2)
                    else:
                        ok = False
                elif callee_name(t) in may_emit:
                    ok = False
        if ok and sizes:
            return sizes
    return None


def arg_sizes_table(w):
    f = w.require_fn('yarel::chunk::OpCode::arg_sizes', 'C04')
    c = w.yarel
    op = c.adts['yarel::chunk::OpCode']
    byd = {v.get('discr', i): v['n'] for i, v in enumerate(op['variants'])}
    out = {}
    for bi in f.normal_blocks():
        t = f.blocks[bi]['t']
        if t['t'] != 'switch':
            continue
        for v, tb in t['cases']:
            # the arm's array literal: a promoted constant `&[a, b]` -> read its length / elements from promoted bodies
            out[byd.get(v, v)] = arm_array(f, tb)
    return out


def arm_array(f, b):
    for _ in range(4):
        for s in f.blocks[b]['s']:
            r = s.get('r', {})
            k = op_const(r.get('o', {}) or {}) if r.get('rv') == 'use' else None
            if k is not None and 'promoted[' in k.get('s', ''):
                idx = int(k['s'].split('promoted[')[1].split(']')[0])
                pb = f.raw.get('promoted', [])[idx]['blocks']
                for blk in pb:
                    for s2 in blk['s']:
                        r2 = s2.get('r', {})
                        if r2.get('rv') == 'agg' and r2.get('array'):
                            return tuple((op_const(o) or {}).get('v') for o in r2['ops'])
                return ()
        t = f.blocks[b]['t']
        if t['t'] == 'goto':
            b = t['to']
        else:
            break
    return None


def b1(rep, w):
    r = rep.rule('B1', 'operand layout agreement: for every opcode, the bytes every emitter site writes equal the bytes its VM handler '
                 'consumes (and OpCode::arg_sizes for the opcodes emitted through it)', floor=60)
    vm = vm_layouts(w)
    em, dyn = emitter_layouts(w)
    ops = list(emit.opcode_table(w).values())
    if len(vm) < len(ops):
        r.bad('Vm::run arms recognised', 'only %d of %d opcode arms were recognised in Vm::run (%s missing)' % (len(vm), len(ops), [o for o in ops if o not in vm][:6]))
    table = arg_sizes_table(w)
    var_ops = sorted(set(c_ops(w, P + 'resolve_variable')))
    for opn in ops:
        vl = vm.get(opn)
        el = em.get(opn)
        if opn in var_ops:
            # emitted through emit_variable_op / named_variable: one byte iff arg_sizes == [1], else a two-byte constant operand
            ts = table.get(opn)
            want = (1,) if ts == (1,) else (2,)
            r.check(vl == {want}, '%s (variable opcode): arg_sizes %s -> emitted %s, VM reads %s' % (opn, ts, want, sorted(vl or [])),
                    'emit_variable_op writes %s operand byte(s) for %s (OpCode::arg_sizes = %s) but the VM handler consumes %s'
                    % (want, opn, ts, sorted(vl or [])))
            continue
        if el is None:
            if vl in ({()}, None):
                r.ok('%s: never emitted with operands, VM reads none' % opn, sample=False)
            else:
                r.bad('%s: no emitter site found' % opn, 'the VM consumes %s for %s but no emitter site was recognised' % (sorted(vl), opn))
            continue
        if len(el) > 1:
            # a site that writes no repeated part is compatible with one that writes it zero or more times
            stripped = {tuple(x for x in k if not isinstance(x, tuple)) for k in el}
            starred = [k for k in el if any(isinstance(x, tuple) for x in k)]
            if len(stripped) == 1 and len(starred) == 1:
                r.note('%s: sites %s write the fixed part only (zero repetitions)' % (opn, [v for k, v in el.items() if k != starred[0]]))
                el = {starred[0]: sum(el.values(), [])}
            else:
                r.bad('%s: emitter sites disagree' % opn, 'sites write different operand layouts: %s' % {str(k): v for k, v in el.items()})
                continue
        lay = list(el)[0]
        r.check(vl == {lay}, '%s: emitted %s == consumed %s' % (opn, lay, sorted(vl or [])),
                'emitter sites %s write operands %s after %s but its VM handler consumes %s: every later instruction is decoded '
                'from the wrong offset' % (el[lay][:3], lay, opn, sorted(vl or [])))
        ts = table.get(opn)
        if ts is not None and tuple(x for x in lay if not isinstance(x, tuple)) != ts:
            r.note('arg_sizes table differs from emitter/VM for %s: table %s, actual %s (affects only the disassembler)' % (opn, ts, lay))
    for (f, bi, kind) in dyn:
        if kind != 'variable_op':
            r.bad('%s: dynamic opcode at an emitter site' % f.path, 'could not determine which opcodes reach this emitter call', f.loc(f.blocks[bi]['t'].get('sp')))
    # emit_variable_op / named_variable choose by arg_sizes() == [1]
    for nm in ('emit_variable_op', 'named_variable'):
        f = w.require_fn(P + nm, 'C04')
        uses = any(callee_name(t) == 'yarel::chunk::OpCode::arg_sizes' for _, t in f.calls())
        r.check(uses, '%s picks the operand width from OpCode::arg_sizes' % nm, '%s no longer consults arg_sizes' % nm, f.loc())


def c_ops(w, path):
    f = w.require_fn(path, 'C04')
    out = []
    for b in f.blocks:
        for s in b['s']:
            r = s.get('r', {})
            if r.get('rv') == 'agg' and r.get('adt') == 'yarel::chunk::OpCode':
                out.append(r['v'])
    return out


# ---- B2 -------------------------------------------------------------------------------------------------------------

def _flows(f, src, dst, depth=4):
    """dst is assigned (directly or through a field of a checked-arithmetic pair / plain copies) from src"""
    if src == dst:
        return True
    if depth == 0:
        return False
    for b in f.blocks:
        for s_ in b['s']:
            d = s_.get('d') or {}
            if d.get('l') == dst and not d.get('p') and s_.get('r', {}).get('rv') == 'use':
                pl = op_place(s_['r']['o'])
                if pl is not None and _flows(f, src, pl['l'], depth - 1):
                    return True
    return False


def consts_in(f, ops=('Sub', 'Add')):
    out = []
    for b in f.blocks:
        for s in b['s']:
            r = s.get('r', {})
            if r.get('rv') == 'bin' and r['op'].startswith(ops):
                k = op_const(r['b'])
                if k is not None and 'v' in k:
                    out.append((r['op'][:3], k['v']))
    return out


def b2(rep, w):
    r = rep.rule('B2', 'jump arithmetic agrees: placeholder width = patch adjustment = patched bytes = operand width read by the VM; '
                 'same byte order on both sides', floor=8)
    short = prim_size(w, VM + 'read_short')
    byte = prim_size(w, VM + 'read_byte')
    r.check(short == 2 and byte == 1, 'read_short advances 2, read_byte advances 1', 'primitive readers advance ip by %s / %s' % (short, byte))
    ej = w.require_fn(P + 'emit_jump', 'C04')
    ev = emit.emissions(w, ej)
    raw = sum(2 for (bi, k, o, d) in ev if k == 'bytes' and o is None and not d.get('dynop')) + \
        sum(1 for (bi, k, o, d) in ev if k == 'byte' and o is None and not d.get('dynop'))
    back = [v for (op, v) in consts_in(ej, ('Sub',))]
    r.check(raw == short and back == [raw], 'emit_jump: %d placeholder bytes, returns len - %s' % (raw, back),
            'emit_jump writes %d placeholder bytes and returns len - %s; the VM reads a %d-byte offset' % (raw, back, short), ej.loc())
    def with_new_helpers(f, ops):
        # the constants of f and of the helpers it calls that the tree the rules were written against does not have (an operand
        # encoder factored out into chunk.rs): the arithmetic is judged wherever the refactoring put it
        import json, os
        known = set(json.load(open(os.path.join(os.path.dirname(os.path.abspath(__file__)), 'tables', 'known_fns.json'))))
        out = list(consts_in(f, ops))
        for _, t in f.calls():
            g = w.fns.get(callee_name(t) or '')
            if g is not None and g.path not in known and g.file.endswith(('chunk.rs', 'compiler.rs')):
                out += list(consts_in(g, ops))
        return out
    pj = w.require_fn(COMPILER + 'patch_jump', 'C04')
    subs = [v for (op, v) in consts_in(pj, ('Sub',))]
    adds = [v for (op, v) in with_new_helpers(pj, ('Add',))]
    r.check(subs == [short] and adds == [1], 'patch_jump: jump = len - offset - %s, patches code[offset], code[offset + 1]' % subs,
            'patch_jump subtracts %s and patches at offsets +%s (operand width is %d)' % (subs, adds, short), pj.loc())
    el = w.require_fn(P + 'emit_loop', 'C04')
    adds = [v for (op, v) in consts_in(el, ('Add',))]
    # the VM subtracts the operand from the ip *after* the operand: the distance is (code length when it is read) - loop_start + the bytes of the
    # Loop instruction written after that reading - 2 when the opcode is already out, 3 when the whole instruction follows
    lens = [bi for bi, t in el.calls() if strip_generics(callee_name(t) or '').endswith('::len')]
    if len(lens) != 1:
        raise Broken('C04', 'anchor', 'emit_loop: %d readings of the code length (expected one)' % len(lens))
    later = 0
    for (bi, k, o, d) in emit.emissions(w, el):
        if bi in el.reachable_blocks(lens[0]) and bi != lens[0]:
            later += 2 if k == 'bytes' else 1
    r.check(adds == [later], 'emit_loop: offset = len - loop_start + %s, %d bytes of the instruction follow the reading of len' % (adds, later),
            'emit_loop adds %s to the distance, but %d bytes of the Loop instruction are written after the code length was read (the VM counts back from the end of the operand)' % (adds, later), el.loc())
    po = w.require_fn(P + 'patch_offset_at', 'C04')
    adds = [v for (op, v) in with_new_helpers(po, ('Add',))]
    subs = [v for (op, v) in consts_in(po, ('Sub',))]
    r.check(adds == [1] and subs == [], 'patch_offset_at: jump = len - offset, patches code[pos], code[pos + 1]', 'patch_offset_at arithmetic changed: adds %s subs %s' % (adds, subs), po.loc())
    # try_statement passes pos and pos + 2 (second short) and both are relative to the ip after the two operands
    ts = w.require_fn(P + 'try_statement', 'C04')
    # only the additions that compute a position handed to patch_offset_at (other arithmetic in try_statement is not address arithmetic)
    adds = []
    torg = origins(ts)
    for bi, t in ts.calls():
        if callee_name(t) != P + 'patch_offset_at':
            continue
        pl = op_place(t['args'][1])
        for b in ts.blocks:
            for s_ in b['s']:
                rr = s_.get('r', {})
                if rr.get('rv') == 'bin' and rr['op'].startswith('Add') and op_const(rr['b']) is not None and pl is not None:
                    dl = s_['d']['l']
                    # the sum (or its checked `.0`) is the argument
                    if dl == pl['l'] or any(q[0] == ('local', dl) for q in torg.get(pl['l'], ())) or _flows(ts, dl, pl['l']):
                        adds.append(op_const(rr['b'])['v'])
    r.check(adds == [short], 'try_statement: second handler operand at first + %s' % adds, 'the second PushExcHandler operand is patched at +%s (operand width %d)' % (adds, short), ts.loc())
    pe = w.require_fn(VM + 'push_exc_handler_impl', 'C04')
    offs = [bi for bi, t in pe.calls() if strip_generics(callee_name(t) or '').endswith('::offset')]
    reads = [bi for bi, t in pe.calls() if callee_name(t) == VM + 'read_short']
    ok = len(reads) == 2 and len(offs) == 2 and all(all(o in pe.reachable_blocks(rd) for rd in reads) for o in offs)
    r.check(ok, 'push_exc_handler_impl: both offsets are relative to the ip after both operands', 'handler addresses are computed before both operands were read', pe.loc())
    # VM jump handlers add (forward) / subtract (Loop) the operand to the ip after the operand
    for nm, neg in (('jump_impl', False), ('jump_if_false_impl', False), ('jump_if_stop_iter', False), ('loop_impl', True)):
        f = w.require_fn(VM + nm, 'C04')
        has_neg = any(s.get('r', {}).get('rv') == 'un' and s['r']['op'] == 'Neg' for b in f.blocks for s in b['s'])
        rd = [bi for bi, t in f.calls() if callee_name(t) == VM + 'read_short']
        r.check(len(rd) == 1 and has_neg == neg, '%s: ip %s= read_short()' % (nm, '-' if neg else '+'), '%s direction/width changed' % nm, f.loc())
    # byte order
    enc = set()
    dec = set()
    for f in w.yarel.fns.values():
        for bi, t in f.calls():
            n = strip_generics(callee_name(t) or '')
            tail = n.rsplit('::', 1)[-1]
            if f.file.endswith(('compiler.rs', 'chunk.rs')) and tail in ('to_ne_bytes', 'to_le_bytes', 'to_be_bytes') and 'u16' in (callee_name(t) or ''):
                enc.add(tail[3:5])
            if f.file.endswith('vm.rs') and tail in ('from_ne_bytes', 'from_le_bytes', 'from_be_bytes') and 'u16' in (callee_name(t) or ''):
                dec.add(tail[5:7])
    r.check(len(enc) == 1 and enc == dec, 'u16 operands: compiler to_%s_bytes, VM from_%s_bytes' % (sorted(enc), sorted(dec)),
            'operand byte order differs between compiler (%s) and VM (%s)' % (sorted(enc), sorted(dec)))


def b2w(rep, w, rid='B2w'):
    """bytecode operands are widened before they take part in arithmetic: a sum/product of two operands in operand width
    wraps (release) or panics (checked build) although each operand is individually legal"""
    c = w.yarel
    r = rep.rule(rid, 'operands read from the bytecode are widened to pointer width before any arithmetic', floor=1)
    n = 0
    for f in sorted(c.fns.values(), key=lambda x: x.path):
        if not f.path.startswith(VM):
            continue
        reads = [bi for bi, t in f.calls() if callee_name(t) in READS]
        if not reads:
            continue
        org = origins(f)
        for bi in sorted(f.normal_blocks()):
            for s in f.blocks[bi]['s']:
                rr = s.get('r', {})
                if rr.get('rv') != 'bin' or not rr['op'].startswith(('Add', 'Sub', 'Mul', 'Shl')):
                    continue
                for o in (rr['a'], rr['b']):
                    pl = op_place(o)
                    if pl is None:
                        continue
                    ty = c.tstr(pl.get('t', f.local_ty(pl['l'])))
                    if ty in ('u8', 'u16') and any(q[0][0] == 'call' and q[0][2] in READS for q in org.get(pl['l'], ())):
                        n += 1
                        r.bad('%s / %s in %s' % (f.path, rr['op'], ty), 'arithmetic on a bytecode operand in its %s width: two legal operands can overflow it '
                              '(wrap in the optimised build, panic in the checked one)' % ty, f.loc(s.get('sp')))
        r.ok('%s: operands widened before arithmetic' % f.path, sample=False)
    r.note('%d narrow-width arithmetic sites' % n)


# ---- B3 -------------------------------------------------------------------------------------------------------------

def b3(rep, w):
    c = w.yarel
    r = rep.rule('B3', 'every jump placeholder is patched (or queued as a break) on every error-free path; every loop drains its breaks', floor=9)
    for f in sorted(c.fns.values(), key=lambda x: x.path):
        if not f.file.endswith('compiler.rs'):
            continue
        ejs = [(bi, t) for bi, t in f.calls() if callee_name(t) == P + 'emit_jump']
        if not ejs:
            continue
        org = origins(f)
        for n, (bi, t) in enumerate(sorted(ejs)):
            root = ('call', bi, P + 'emit_jump')
            through = set()
            for b2, t2 in f.calls():
                if callee_name(t2) in (P + 'patch_jump', COMPILER + 'push_break', COMPILER + 'patch_jump') and len(t2['args']) > 1:
                    pl = op_place(t2['args'][1])
                    if pl is not None and any(q[0] == root for q in org.get(pl['l'], ())):
                        through.add(b2)
            start = t.get('to')
            ok = bool(through) and start is not None and emit.all_clean_paths_pass(f, through, start)
            name = f.local_name(t['dst']['l'])
            r.check(ok, '%s / jump #%d (%s)' % (f.path.replace(P, ''), n, name),
                    'the placeholder written by emit_jump is not patched on some error-free path: the instruction keeps its 0xffff operand '
                    'and jumps 65535 bytes ahead, out of the chunk', f.loc(t.get('sp')))
    # loops
    for nm in ('while_statement', 'for_statement'):
        f = w.require_fn(P + nm, 'C04')
        pushes = [bi for bi, t in f.calls() if callee_name(t) == COMPILER + 'push_loop']
        pops = {bi for bi, t in f.calls() if callee_name(t) == COMPILER + 'pop_loop'}
        ok = bool(pushes) and all(emit.all_clean_paths_pass(f, pops, f.blocks[p]['t'].get('to')) for p in pushes)
        r.check(ok, '%s: push_loop is followed by pop_loop' % nm, 'a loop is opened without pop_loop on some error-free path: its break jumps are never patched', f.loc())
    pl_ = w.require_fn(COMPILER + 'pop_loop', 'C04')
    pj = [bi for bi, t in pl_.calls() if callee_name(t) == COMPILER + 'patch_jump']
    looped = any(bi in pl_.reachable_blocks(s) for bi in pj for s in pl_.succs()[bi])
    r.check(bool(pj) and looped, 'pop_loop patches every queued break', 'pop_loop no longer iterates over the break list calling patch_jump', pl_.loc())
    ts = w.require_fn(P + 'try_statement', 'C04')
    pos = [bi for bi, t in ts.calls() if callee_name(t) == P + 'patch_offset_at']
    ok = len(pos) == 2 and all(emit.all_clean_paths_pass(ts, {b}) for b in pos)
    r.check(ok, 'try_statement patches both PushExcHandler operands', 'one of the two 0xffff operands of PushExcHandler is left unpatched on an error-free path', ts.loc())


def b8(rep, w):
    """no code is emitted straight after an unconditional transfer: between a Jump / Loop / Return emission and the next emission on
    the same error-free path of the same compiler function there must be a label (a patched jump target, a drained break list, or
    a recorded code position). Code emitted without one can never run -- for clean-up code (scope-end pops, handler removal) that
    means the clean-up is silently skipped and the operand stack has two heights at the jump target"""
    c = w.yarel
    r = rep.rule('B8', 'clean-up code is emitted before, not after, an unconditional Jump/Loop/Return (nothing is emitted after one without a label in between)', floor=10)
    may_emit = w.can_reach({'yarel::chunk::Chunk::write'})
    LABELS = {P + 'patch_jump', COMPILER + 'patch_jump', COMPILER + 'pop_loop', P + 'patch_offset_at', COMPILER + 'push_loop',
              P + 'finalise_compiler'}   # the implicit return that closes every body (B7) is dead after an explicit one by design
    for f in sorted(c.fns.values(), key=lambda x: x.path):
        if not f.file.endswith('compiler.rs'):
            continue
        evs = emit.emissions(w, f)
        uncond = [(bi, k, o) for (bi, k, o, d) in evs if (k == 'jump' and o == 'Jump') or k in ('loop', 'return') or (k == 'byte' and o == 'Return')]
        if not uncond:
            continue
        err = emit.error_blocks(f)
        calls = dict(f.calls())
        for n, (bi, k, o) in enumerate(sorted(uncond)):
            # walk forward from the emission; stop a path at a label, an error report or a return; flag the first emitting call
            bad = None
            seen = set()
            stack = [calls[bi].get('to')]
            while stack and bad is None:
                b = stack.pop()
                if b is None or b in seen or b in err:
                    continue
                seen.add(b)
                t = f.blocks[b]['t']
                if t['t'] == 'call':
                    nm = callee_name(t)
                    if nm in LABELS:
                        continue
                    if strip_generics(nm or '') == 'std::vec::Vec::len':
                        # `self.chunk().code.len()`: a code position is recorded -> backward-jump / handler label
                        continue
                    if b != bi and (nm in emit.EMITTERS or nm in may_emit or nm is None):
                        bad = (b, nm)
                        break
                stack.extend(f.succs()[b])
            r.check(bad is None, '%s / %s #%d' % (f.path.replace(P, ''), o or k, n),
                    'code is emitted by %s right after the unconditional %s, with no jump target in between: it can never execute '
                    '(scope-end pops / handler clean-up placed there are skipped)' % ((bad or ('', ''))[1], o or k), f.loc(calls[bi].get('sp')))


def b9(rep, w):
    """error discipline inside the compiler: the bookkeeping layer (`Compiler::*`) signals "limit reached / invalid" through a
    bool or a Result<_, CompilerError>; the parser has to look at it -- a dropped refusal means the bytecode is emitted as if the
    slot / jump / upvalue had been recorded"""
    c = w.yarel
    r = rep.rule('B9', 'no refusal of the compiler\'s bookkeeping layer is dropped: every bool / Result returned by a Compiler:: method is examined by its caller', floor=9)
    for f in sorted(c.fns.values(), key=lambda x: x.path):
        if not f.file.endswith('compiler.rs'):
            continue
        n_in_f = {}
        for bi, t in sorted(f.calls()):
            nm = callee_name(t) or ''
            if not nm.startswith(COMPILER):
                continue
            g = w.fns.get(nm)
            if g is None:
                continue
            rt = g.crate.tstr(g.local_ty(0))
            if not (rt == 'bool' or rt.startswith('std::result::Result')):
                continue
            dl = t['dst']['l'] if not t['dst'].get('p') else None
            used = False
            if dl is not None:
                for b in f.blocks:
                    for s_ in b['s']:
                        rr = s_.get('r', {})
                        for o in [rr.get('o'), rr.get('a'), rr.get('b'), rr.get('p')] + list(rr.get('ops') or []):
                            pl = op_place(o) if isinstance(o, dict) and ('m' in o or 'c' in o) else (o if isinstance(o, dict) and 'l' in o else None)
                            if pl is not None and pl.get('l') == dl:
                                used = True
                    tt = b['t']
                    if tt is not t:
                        for o in [tt.get('d')] + list(tt.get('args') or []):
                            pl = op_place(o) if isinstance(o, dict) else None
                            if pl is not None and pl.get('l') == dl:
                                used = True
                    if tt['t'] == 'return' and dl == 0:
                        used = True
            else:
                used = True
            if dl == 0:
                used = True   # returned to the caller, who is checked in turn
            k = n_in_f.get(nm, 0)
            n_in_f[nm] = k + 1
            r.check(used, '%s -> %s #%d' % (f.path.replace(P, '').replace(COMPILER, 'Compiler::'), nm.replace(COMPILER, ''), k),
                    'the %s returned by Compiler::%s is dropped: when it refuses (limit reached / invalid state) compilation carries on as if it had succeeded and '
                    'the emitted code no longer matches the recorded variables' % ('bool' if rt == 'bool' else 'Result', nm.replace(COMPILER, '')), f.loc(t.get('sp')))


def b10(rep, w):
    """handler entry height: unwind_stack enters a handler with the value stack cut back to the height recorded by PushExcHandler
    plus one slot, the exception object. The code at the handler address must have been compiled for that height: a catch block
    declares its variable for the extra slot; a finally block that can be the handler target itself (try/finally without catch) is
    also entered by plain fall-through, one slot lower -- the same instructions then run at two heights and every local declared in
    the block is off by one on the exception path."""
    r = rep.rule('B10', 'the exception object pushed at handler entry is bound to a declared variable on every handler entry (stack height agrees with what the '
                 'compiler assumed for the code at the handler address)', floor=2)
    u = w.require_fn('yarel::vm::Vm::unwind_stack', 'C04')
    org = origins(u)
    trunc = [bi for bi, t in u.calls() if callee_name(t) == 'yarel::stack::Stack::<T, N>::truncate']
    pushes = [bi for bi, t in u.calls() if callee_name(t) == 'yarel::vm::Vm::push' and any(bi in u.reachable_blocks(tb) for tb in trunc)]
    dom = u.dominators()
    # is the push conditional on the kind of handler (catch vs finally-only)?
    kind_tests = [bi for bi, t in u.calls() if callee_name(t) == 'yarel::object::ExcHandler::has_catch_block']
    conditional = any(any(k in dom.get(p_, ()) for k in kind_tests) and not all(p_ in u.reachable_blocks(s_) for s_ in u.succs()[_switch_after(u, k)]) for p_ in pushes for k in kind_tests
                      if _switch_after(u, k) is not None)
    r.check(len(trunc) == 1 and len(pushes) == 1, 'unwind_stack: truncate to the recorded height, push the exception object', 'unwind_stack no longer enters handlers at recorded height + 1', u.loc())
    ts = w.require_fn(P + 'try_statement', 'C04')
    decl = {bi for bi, t in ts.calls() if callee_name(t) == P + 'declare_variable'}
    blocks = sorted(bi for bi, t in ts.calls() if callee_name(t) == P + 'block')
    if len(blocks) != 3:
        raise Broken('C04', 'anchor', 'try_statement: expected three block() calls (try, catch, finally), found %d' % len(blocks))
    fin = blocks[-1]
    # can the finally block be reached on an error-free path that declares no variable for the handler slot?
    err = emit.error_blocks(ts)
    seen, stack, bare = set(), [0], False
    while stack:
        b = stack.pop()
        if b in seen or b in decl or b in err:
            continue
        seen.add(b)
        if b == fin:
            bare = True
            break
        stack.extend(ts.succs()[b])
    r.check(conditional or not bare, 'try_statement / finally-only handler entry',
            'a try statement without catch makes its finally block the handler target, but no variable is declared for the exception object unwind_stack pushes there: '
            'the block runs one slot higher on the exception path than on fall-through, so `finally { var x = 1; print(x); }` prints the exception', ts.loc())


def _switch_after(f, b, limit=6):
    for _ in range(limit):
        t = f.blocks[b]['t']
        if t['t'] == 'switch':
            return b
        b = t.get('to')
        if b is None:
            return None
    return None


def b7(rep, w):
    """every compiled function ends in an unconditionally emitted Return"""
    r = rep.rule('B7', 'every function body is terminated: finalise_compiler emits the implicit return on every path, and emit_return always '
                 'ends with the Return opcode', floor=2)
    fc = w.require_fn(P + 'finalise_compiler', 'C04')
    ers = {bi for bi, t in fc.calls() if callee_name(t) == P + 'emit_return'}
    pops = [bi for bi, t in fc.calls() if strip_generics(callee_name(t) or '') == 'std::vec::Vec::pop']
    ok = bool(ers) and bool(pops)
    # every path from entry to the compilers.pop() passes emit_return
    if ok:
        seen = set()
        stack = [0]
        while stack:
            b = stack.pop()
            if b in seen or b in ers:
                continue
            seen.add(b)
            if b in pops:
                ok = False
                break
            stack.extend(fc.succs()[b])
    r.check(ok, 'finalise_compiler: emit_return on every path before the compiler is popped', 'a function can be finalised without the implicit return: '
            'control that reaches the end of its code runs off the chunk', fc.loc())
    er = w.require_fn(P + 'emit_return', 'C04')
    rets = {bi for (bi, k, o, d) in emit.emissions(w, er) if o == 'Return'}
    r.check(bool(rets) and c01.all_paths_hit(er, None, rets), 'emit_return emits Return on every path', 'emit_return has a path without the Return opcode', er.loc())
    # nothing is emitted after Return inside emit_return
    after = [bi for (bi, k, o, d) in emit.emissions(w, er) if any(bi in er.reachable_blocks(x) and bi != x for x in rets)]
    r.check(not after, 'Return is the last thing emit_return emits', 'emit_return emits bytes after Return', er.loc())


def b11(rep, w):
    """the compiler's picture of the stack and the code agree at every scope exit: end_scope emits the Pop / CloseUpvalue of the scope's
    locals on every path. Whether the end of a block is reachable is a flow question the single-pass compiler does not answer (a block
    whose last statement is `if c { .. } else { return ..; }` ends in a Return instruction and is still left by falling through), so
    no path may skip the pops because of what was emitted last."""
    r = rep.rule('B11', 'end_scope emits the pops of the scope\'s locals on every path', floor=1)
    f = w.require_fn(P + 'end_scope', 'C04')
    # the emission is found by role: a call of (or through) the code that chooses Pop / CloseUpvalue by a local's is_captured flag
    # (c06.scope_exit_choosers), or - when that code was folded into end_scope - an emission of end_scope itself. A loop over the
    # scope's locals that happens to run zero times has emitted all there is to emit: the head of a loop around the emission counts.
    import c06
    choosers = {g.path for g in c06.scope_exit_choosers(w)}
    cg = w.callgraph()
    via = set(choosers)
    for _ in range(2):
        via |= {a for a, bs in cg.items() if bs & via and a != f.path}
    ends = {bi for bi, t in f.calls() if callee_name(t) in via}
    ends |= {bi for bi, t in f.calls() if callee_name(t) in (P + 'emit_byte', P + 'emit_bytes')}
    if f.path in choosers:
        ends |= {bi for (bi, k, o, d) in emit.emissions(w, f) if o in ('Pop', 'CloseUpvalue')}
    dom = f.dominators()
    heads = set()
    for e in ends:
        for h in dom.get(e, ()):
            if h != e and h in f.reachable_blocks(e):
                heads.add(h)
    r.check(bool(ends) and c01.all_paths_hit(f, None, ends | heads), 'end_scope: emit_scope_end on every path', 'end_scope can leave a scope without emitting the pops for its locals: on a path that '
            'falls out of the block the locals stay on the stack and every later local of the function is read one slot off', f.loc())


def b12(rep, w):
    """an operand that names a constant names the value the compiler meant: Chunk::add_constant answers with the index of a new entry or with
    the index the value-keyed map already holds for that very value (Value's own equality) - never with the result of some other search over
    the table, which would let two different values (two functions with equal code but different constants of their own) share a slot."""
    r = rep.rule('B12', 'add_constant returns a new index or the index its value-keyed map holds for that value', floor=1)
    f = w.require_fn('yarel::chunk::Chunk::add_constant', 'C04')
    # the map that answers "is this constant there already" is keyed by the value itself (its own equality), not by a digest of it
    maps = [c_.tstr(fd['t']) for c_ in [w.yarel] for fd in c_.adts['yarel::chunk::Chunk']['variants'][0]['fields'] if 'HashMap<' in c_.tstr(fd['t'])]
    r.check(all(m_.replace('std::collections::', '').startswith('HashMap<value::Value,') or m_.startswith('std::collections::HashMap<value::Value,') for m_ in maps) and bool(maps),
            'the constant map is keyed by Value', 'the chunk\'s constant map is keyed by %s rather than by the value: two different constants with the same digest share a slot' % maps, f.loc())
    org = origins(f)
    roots = org.get(0, ())
    bad = []
    for q in roots:
        if q[0][0] == 'call':
            nm = strip_generics(q[0][2])
            tail = nm.rsplit('::', 1)[-1]
            is_map = 'HashMap' in nm or 'hash_map' in nm or 'hash::map' in nm
            if tail == 'len' or (is_map and tail in ('entry', 'or_insert_with', 'or_insert', 'get', 'insert', 'or_insert_with_key', 'get_or_insert_with')):
                continue
            bad.append(tail)
        elif q[0][0] == 'const':
            bad.append('constant %s' % (q[0][1],))
        elif q[0][0] == 'arg':
            bad.append('argument %s' % (q[0][1],))
        else:
            bad.append(str(q[0][0]))
        if '#bin' in q[1:]:
            bad.append('arithmetic')
    r.check(bool(roots) and not bad, 'add_constant: result is len() or the map entry of the value',
            'add_constant can answer with an index obtained from %s: a value can be given the slot of a different constant (code that loads "its" constant loads the other one)'
            % sorted(set(bad)), f.loc())


def stack_outcomes(w, f):
    """{jump taken?: set of net stack effects} over the error-free paths of a fixed-size opcode handler, or None if the handler is not of that kind"""
    VMP = 'yarel::vm::Vm::'
    err_fns = {VMP + 'try_handle_error', VMP + 'unwind_stack', VMP + 'runtime_error'}
    eff = {}
    fixed = True
    jumps = set()
    for bi, t in f.calls():
        n = callee_name(t)
        if n == VMP + 'pop':
            eff[bi] = -1
        elif n == VMP + 'push':
            eff[bi] = 1
        elif n == VMP + 'discard':
            k = op_const(t['args'][1]) if len(t['args']) > 1 else None
            if k is None or not isinstance(k.get('v'), int):
                fixed = False
            else:
                eff[bi] = -k['v']
        elif n in (VMP + 'peek', VMP + 'poke', VMP + 'read_byte', VMP + 'read_short', VMP + 'read_constant', VMP + 'read_string') or n in err_fns:
            pass
        elif n is not None and n.startswith(VMP) and w.fns.get(n) is not None:
            # another VM routine that may move the stack itself (calls, frames, fibers ...): not a fixed-size handler
            g = w.fns[n]
            if any((callee_name(t2) or '') in (VMP + 'pop', VMP + 'push', VMP + 'discard') or 'Stack' in (callee_name(t2) or '') or 'frames' in str(t2.get('args')) for _, t2 in g.calls()):
                fixed = False
        if strip_generics(n or '').endswith(('::offset', '::add', '::sub')) and 'ptr' in (n or ''):
            jumps.add(bi)
    # writes of self.ip mark the 'jump taken' paths
    for bi in f.normal_blocks():
        for s_ in f.blocks[bi]['s']:
            d = s_.get('d') or {}
            if d.get('p') and isinstance(d['p'][-1], dict) and d['p'][-1].get('n') == 'ip':
                jumps.add(bi)
    if not fixed or not eff:
        return None
    errs = {bi for bi, t in f.calls() if callee_name(t) in err_fns}
    for bi in f.normal_blocks():
        for s_ in f.blocks[bi]['s']:
            rr = s_.get('r', {})
            if (s_.get('d') or {}).get('l') == 0 and rr.get('rv') == 'agg' and rr.get('v') == 'Err':
                errs.add(bi)
    outcomes = {}      # jumped? -> set of net effects
    seen = set()
    todo = [(0, 0, False)]
    steps = 0
    while todo and steps < 20000:
        steps += 1
        b, net, jumped = todo.pop()
        if (b, net, jumped) in seen or b in errs:
            continue
        seen.add((b, net, jumped))
        net2 = net + eff.get(b, 0)
        j2 = jumped or b in jumps
        t = f.blocks[b]['t']
        if t['t'] == 'return':
            outcomes.setdefault(j2, set()).add(net2)
            continue
        for s_ in f.succs()[b]:
            if s_ in f.normal_blocks() and abs(net2) < 8:
                todo.append((s_, net2, j2))
    return outcomes


def b13(rep, w):
    """the compiler counts stack slots per instruction, so what an instruction does to the height of the operand stack is a function of the
    instruction (and, for a conditional jump, of whether it jumps) - not of which of the handler's internal paths served it. Decided for the
    handlers whose stack operations are all of fixed size (pop / push / discard(constant)): all error-free paths that agree on 'the jump was
    taken' have the same net effect. (A fast path that pops the end-of-iteration marker while the general path leaves it to a Pop the compiler
    no longer emits shifts every later local of the function by one.)"""
    import c07
    r = rep.rule('B13', 'the net stack effect of a fixed-size opcode handler is the same on every error-free path (per jump outcome)', floor=15)
    arms = c07.vm_arm_callees(w)
    VMP = 'yarel::vm::Vm::'
    handlers = set()
    for op_, cs in arms.items():
        for n in cs:
            if n and n.startswith(VMP) and w.fns.get(n) is not None and (n.endswith('_impl') or n.rsplit('::', 1)[-1] in ('jump_if_stop_iter',)):
                handlers.add(n)
    err_fns = {VMP + 'try_handle_error', VMP + 'unwind_stack', VMP + 'runtime_error'}
    for hn in sorted(handlers):
        f = w.fns[hn]
        outcomes = stack_outcomes(w, f)
        if outcomes is None:
            continue
        bad = {j: sorted(v) for j, v in outcomes.items() if len(v) > 1}
        r.check(not bad, '%s / net stack effect' % hn.replace('yarel::', ''),
                '%s changes the height of the operand stack by %s depending on the path taken inside the handler (%s): the compiler assumes one effect per instruction, so after '
                'the other path every later local of the function is read from a neighbouring slot' % (hn.rsplit('::', 1)[-1], ' or '.join(str(x) for v in bad.values() for x in v),
                                                                                                     'jump taken' if True in bad else 'no jump'), f.loc())


def b14(rep, w):
    """a constant operand names a slot of the chunk being written *now*: the index given to emit_constant_op was made for this chunk on the way -
    by make_constant / identifier_constant in the same function, or by the resolution of a variable, or handed in as a parameter by a caller that
    did. An index taken from a table that outlives one function's compilation (a memo of literal texts) belongs to some other function's chunk."""
    r = rep.rule('B14', 'every constant index handed to emit_constant_op was produced for the current chunk in the same compilation step', floor=14)
    OK = ('make_constant', 'identifier_constant', 'resolve_variable', 'resolve_local', 'resolve_upvalue', 'add_constant')
    for f in sorted(w.yarel.fns.values(), key=lambda x: x.path):
        org = None
        k = 0
        for bi, t in f.calls():
            if callee_name(t) != P + 'emit_constant_op' or len(t['args']) < 3:
                continue
            k += 1
            org = org or origins(f)
            pl = op_place(t['args'][2])
            roots = org.get(pl['l'], ()) if pl is not None else ()
            def per_function_table(q):
                # a look-up in a table that is a field of the Compiler record of the function being compiled (it dies with that function)
                if q[0][0] != 'call' or strip_generics(q[0][2]).rsplit('::', 1)[-1] not in ('get', 'index', 'get_mut', 'entry', 'or_insert_with', 'or_insert'):
                    return False
                a0 = f.blocks[q[0][1]]['t'].get('args') or []
                pl0 = op_place(a0[0]) if a0 else None
                if pl0 is None:
                    return False
                comp_fields = {fd['n'] for fd in w.yarel.adts.get('yarel::compiler::Compiler', {'variants': [{'fields': []}]})['variants'][0]['fields']}
                parser_fields = {fd['n'] for fd in w.yarel.adts.get('yarel::compiler::Parser', {'variants': [{'fields': []}]})['variants'][0]['fields']}
                for q0 in org.get(pl0['l'], ()):
                    if q0[0][0] == 'call' and q0[0][2].rsplit('::', 1)[-1] in ('compiler', 'compiler_mut'):
                        return True
                    named = [x for x in q0[1:] if not x.startswith(('@', '#', 'as ', 'in ')) and x not in ('*', '[]') and not x.isdigit()]
                    # ... or reached as <the stack of Compiler records>.last().<field of Compiler>
                    if named and named[-1] in comp_fields and named[-1] not in parser_fields:
                        return True
                return False
            bad = sorted({(q[0][2].rsplit('::', 1)[-1] if q[0][0] == 'call' else str(q[0])) for q in roots
                          if not ((q[0][0] == 'call' and q[0][2].rsplit('::', 1)[-1] in OK) or q[0][0] == 'arg' or per_function_table(q))})
            r.check(bool(roots) and not bad, '%s / constant operand #%d comes from make_constant / identifier_constant' % (f.path.replace(P, ''), k),
                    '%s emits a constant operand whose index comes from %s, not from adding the constant to the chunk being compiled: the slot may belong to another function\'s '
                    'constant table (the instruction then loads whatever that slot holds here)' % (f.path, bad), f.loc(t.get('sp')))


def b15(rep, w):
    """code that has been emitted stays: the compiler records positions in it (jump placeholders, loop starts, handler offsets), so nothing takes
    bytes back out of Chunk.code or the line table - no pop / truncate / remove / drain / clear on them anywhere. (A peephole that deletes "the
    LogicalNot just emitted" by a remembered offset deletes some other instruction when the offset is stale.)"""
    r = rep.rule('B15', 'emitted bytecode is never taken back (no shrinking operation on Chunk.code / the line table)', floor=0)
    from c16 import operand_fields
    n = 0
    for f in sorted(w.yarel.fns.values(), key=lambda x: x.path):
        org = None
        for bi, t in f.calls():
            nm = strip_generics(callee_name(t) or '')
            if nm.startswith('std::vec::Vec') and nm.rsplit('::', 1)[-1] in ('pop', 'truncate', 'remove', 'drain', 'clear', 'swap_remove', 'split_off', 'retain', 'dedup') and t['args']:
                org = org or origins(f)
                flds = operand_fields(f, org, t['args'][0])
                pl0 = op_place(t['args'][0])
                ty0 = f.crate.tstr(pl0.get('t', f.local_ty(pl0['l']))) if pl0 is not None else ''
                # the code vector (bytes) or the line table of a chunk, reached through a field `chunk`, inside chunk.rs, or through an accessor
                # that hands out the chunk (Parser::chunk())
                via_chunk = 'chunk' in flds or f.path.startswith('yarel::chunk::') or \
                    any(q[0][0] == 'call' and 'Chunk' in f.crate.tstr(f.local_ty(f.blocks[q[0][1]]['t']['dst']['l'])) for q in org.get(pl0['l'], ()) if pl0 is not None)
                if (('code' in flds and 'u8' in ty0) or 'lines' in flds) and via_chunk:
                    n += 1
                    r.bad('%s / %s on the code vector' % (f.path.replace('yarel::', ''), nm.rsplit('::', 1)[-1]),
                          '%s removes bytes from emitted code: positions recorded earlier (jumps to patch, loop starts, handler offsets) now name other instructions' % f.path, f.loc(t.get('sp')))
    r.ok('census of shrinking operations on emitted code: %d' % n)


# ---- B5 -------------------------------------------------------------------------------------------------------------

def b5(rep, w):
    c = w.yarel
    r = rep.rule('B5', 'limit coherence: encoding limits fit their operand widths and are enforced at the same constants', floor=8)

    def const(n):
        v = c.consts.get(n, {}).get('v')
        if v is None:
            raise Broken('C04', 'anchor', 'constant %s not found' % n)
        return v
    lm, um, fm = const('yarel::common::LOCALS_MAX'), const('yarel::common::UPVALUES_MAX'), const('yarel::common::FRAMES_MAX')
    # the capacity of the value stack: the const argument of ObjFiber's Stack<Value, N> field, wherever that constant is defined
    import roles
    sm = None
    for fd in c.adts['yarel::object::ObjFiber']['variants'][0]['fields']:
        if fd['n'] == roles.resolve(w)['stack']:
            cargs = c.ty(fd['t']).get('c') or []
            if cargs:
                nm = str(cargs[0]).strip('{} ').rsplit('::', 1)[-1]
                if nm.isdigit():
                    sm = int(nm)
                else:
                    hits = [v for k_, v in c.consts.items() if k_.rsplit('::', 1)[-1] == nm and 'v' in v]
                    if len(hits) == 1:
                        sm = hits[0]['v']
    if sm is None:
        raise Broken('C04', 'anchor', 'capacity of the value stack (const argument of ObjFiber.stack) not found')
    r.check(lm <= 256, 'LOCALS_MAX = %d <= 256' % lm, 'local slots are one-byte operands but LOCALS_MAX = %d' % lm)
    r.check(um <= 256, 'UPVALUES_MAX = %d <= 256' % um, 'capture indices are one-byte operands but UPVALUES_MAX = %d' % um)
    r.check(sm >= lm * fm, 'value-stack capacity %d >= LOCALS_MAX x FRAMES_MAX' % sm, 'the value stack holds %d slots but %d frames of up to %d locals each are allowed (%d): deep recursion of functions '
            'with many locals runs past the stack (checked builds panic, optimised builds write beyond the allocation)' % (sm, fm, lm, lm * fm))

    def compares_with(path, value, ops=('Eq', 'Ge', 'Gt')):
        f = w.require_fn(path, 'C04')
        consts = {}
        for b in f.blocks:
            for s in b['s']:
                rr = s.get('r', {})
                if rr.get('rv') in ('cast', 'use') and s.get('d') and not s['d'].get('p'):
                    k = op_const(rr['o'])
                    if k is not None and 'v' in k:
                        consts[s['d']['l']] = k['v']
        for b in f.blocks:
            for s in b['s']:
                rr = s.get('r', {})
                if rr.get('rv') == 'bin' and rr['op'] in ops:
                    for o in (rr['a'], rr['b']):
                        k = op_const(o)
                        pl = op_place(o)
                        if (k is not None and k.get('v') == value) or (pl is not None and consts.get(pl['l']) == value):
                            return rr['op'], f
        return None, f
    op, f = compares_with(COMPILER + 'add_local', lm)
    r.check(op in ('Eq', 'Ge'), 'add_local refuses at len == LOCALS_MAX', 'add_local does not test locals.len() against LOCALS_MAX (%s)' % op, f.loc())
    op, f = compares_with(COMPILER + 'add_upvalue', um)
    r.check(op in ('Eq', 'Ge'), 'add_upvalue refuses at len == UPVALUES_MAX', 'add_upvalue does not test against UPVALUES_MAX (%s)' % op, f.loc())
    op, f = compares_with(VM + 'call_closure', fm)
    r.check(op in ('Eq', 'Ge'), 'call_closure refuses at frames.len() == FRAMES_MAX', 'call_closure does not test the frame count against FRAMES_MAX (%s)' % op, f.loc())
    op, f = compares_with(P + 'make_constant', 65535, ('Gt', 'Ge'))
    r.check(op == 'Gt', 'make_constant refuses above u16::MAX', 'make_constant does not reject constant indices above 65535 (%s)' % op, f.loc())
    # who may push locals / upvalues
    for adt, fld, allowed in (('yarel::compiler::Compiler', 'locals', {COMPILER + 'add_local', COMPILER + 'new'}),
                              ('yarel::compiler::Compiler', 'upvalues', {COMPILER + 'add_upvalue', COMPILER + 'new'})):
        ws = set()
        for g in c.fns.values():
            org = None
            for bi, t in g.calls():
                if strip_generics(callee_name(t) or '') in ('std::vec::Vec::push', 'std::vec::Vec::insert', 'std::vec::Vec::extend'):
                    if org is None:
                        org = origins(g)
                    pl = op_place(t['args'][0])
                    if pl is not None and any(fld in q for q in org.get(pl['l'], ())) and g.file.endswith('compiler.rs'):
                        et = c.ty(c.peel_refs(pl.get('t', g.local_ty(pl['l']))))
                        if et.get('n') == 'std::vec::Vec' and c.tstr(et['a'][0]).endswith(('Local', 'Upvalue')):
                            ws.add(g.path)
        r.check(ws <= allowed, 'Compiler.%s grows only in %s' % (fld, sorted(x.rsplit('::', 1)[-1] for x in allowed)),
                'Compiler.%s is pushed to in %s, bypassing the limit test' % (fld, sorted(ws - allowed)))
