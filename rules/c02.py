"""C02 running never panics / corrupts memory: decided clauses P1..P7."""
from collections import defaultdict

from facts import origins, callee_name, op_place, op_const, Broken, strip_generics, is_wrapper
import c01

NATIVE_SIG = 'vm::Vm, usize) -> std::result::Result<value::Value, error::Error>'
PEEKS = {'yarel::vm::Vm::peek', 'yarel::vm::Vm::native_arg', 'yarel::vm::Vm::unchecked_native_arg'}
CHECK = 'yarel::core::check_num_args'


def natives(w):
    out = set()
    for k, v in w.reified().items():
        if NATIVE_SIG in k.replace('yarel::', ''):
            out |= {x for x in v if x in w.fns}
    return out


def run(rep):
    w = rep.world('dev')
    rep.guard(p1, rep, w)
    rep.guard(p2, rep, w)
    rep.guard(p3, rep, w)
    rep.guard(p4, rep, w)
    rep.guard(p5, rep, w)
    rep.guard(p6, rep, w)
    rep.guard(p7, rep, w)
    rep.guard(p11, rep, w)
    rep.guard(p8, rep, w)
    rep.guard(p9, rep, w)
    rep.guard(p10, rep, w)
    rep.guard(c01.r1, rep, w)     # memory safety needs complete tracing: an untraced edge is a use-after-free at the next collection
    import c12
    rep.guard(c12.h4, rep, w)
    rep.guard(c12.h1, rep, w)     # a kind admitted as a key for which Hash for Value has no arm: panic!("Unhashable value type")     # a map borrowed mutably while its key is formatted for the error message: RefCell panic
    import c04_narrow
    rep.guard(c04_narrow.b4, rep, w)   # a truncated jump operand makes the VM execute operand bytes as instructions
    import c17
    rep.guard(c17.l6, rep, w, 'C02')   # a stale throw site makes runtime_error index the wrong chunk's line table (host panic)
    rep.guard(c17.l4, rep, w)          # ... and so does a raise that records no site while another exception's site is still recorded
    import c10
    rep.guard(c10.v2, rep, w)     # a debug-only assertion on data-dependent quantities is a host panic in the checked build
    rep.guard(c10.v5, rep, w, 'V5')    # overflow-checked arithmetic on program-chosen integers panics in the checked build
    rep.guard(c10.v6, rep, w)          # ... and so does a difference of two program-chosen lengths taken without comparing them
    import c08
    rep.guard(c08.x2b, rep, w)         # a handler popped too many leaves JumpFinally / PopExcHandler with nothing to pop: expect() panics
    rep.guard(c08.x19, rep, w, 'C02')  # ... and so does a parked return that survives the exception which replaced it (its JumpFinally runs with no handler)
    import c04
    rep.guard(c04.b5, rep, w)          # value-stack capacity below frames x locals: the unchecked push of optimised builds writes past the allocation
    import c06
    rep.guard(c06.s10, rep, w, 'C02')  # a program-chosen name that shadows the hidden `super` makes the VM take a module for a class: unreachable!()
    import c13
    rep.guard(c13.u3, rep, w)          # a string slice at a position that is not a character boundary is a host panic, wherever it is taken (iterator steps, error messages)
    import c14
    rep.guard(c14.m5, rep, w)          # closures do not trace their module (every module stays registered until reset()): a module that leaves the registry earlier is freed under its closures
    rep.guard(c01.r0, rep, w)          # the collector's phases: a single blacken pass loses what a blacken re-greys (a bound method's receiver) - a reachable object is freed and used
    rep.guard(c01.r2, rep, w)          # a handle kept outside the heap without a root (the class of a built-in error in the class store) dangles after the next collection
    import c12
    rep.guard(c12.h13, rep, w, 'C02')  # a hasher whose write() panics is a host panic for the first key that reaches it
    rep.guard(c12.h5, rep, w)          # a re-entrancy guard left set makes has_hash answer `true` for ever: an unhashable key then reaches the hasher, whose arm for such kinds is a host panic
    rep.guard(p12, rep, w)
    rep.guard(p13, rep, w)
    rep.guard(p14, rep, w)
    import c06
    rep.guard(c06.s4, rep, w)          # an upvalue left open past the end of its scope is a raw pointer into a dead stack slot: the open list stays ordered the way close_upvalues walks it
    import c09
    rep.guard(c09.f12, rep, w, 'C02')  # a fiber taken over for another run carries nothing of the earlier one: a left-over handler sends the next error into another script's bytecode (foreign constant table: host panic)
    rep.guard(c09.f13, rep, w)         # a refused Fiber.call that has already marked the fiber as entered: the retry is judged as a resume, the body runs with its locals displaced by one slot and reads above the stack top


def const_usize(o):
    k = op_const(o)
    if k is not None and 'v' in k:
        return k['v']
    return None


def arity_facts(f):
    """blocks after which the arity of native f is known to be >= K:
    returns list of (entry_block, K): every block dominated by entry_block has num_args >= K"""
    out = []
    org = origins(f)
    for bi, t in f.calls():
        if callee_name(t) == CHECK and len(t['args']) == 2:
            a0 = op_place(t['args'][0])
            k = const_usize(t['args'][1])
            from_param = a0 is not None and any(q[0] == ('arg', 2) and len(q) == 1 for q in org.get(a0['l'], ())) or (a0 and a0['l'] == 2)
            if k is None or not from_param:
                continue
            # the result must be propagated: it reaches Try::branch and the Break arm returns
            dst = t['dst']['l']
            nxt = t.get('to')
            propagated = False
            if nxt is not None:
                t2 = f.blocks[nxt]['t']
                if t2['t'] == 'call' and (callee_name(t2) or '').endswith('Try>::branch'):
                    pl = op_place(t2['args'][0])
                    if pl is not None and pl['l'] == dst:
                        # find the Continue successor: block after the switch that does not return directly
                        cont = continue_successor(f, t2.get('to'))
                        if cont is not None:
                            out.append((cont, k))
                            propagated = True
            if not propagated:
                out.append((None, k))     # ignored result: recorded so that P1 can report it
    # comparison edges num_args == K
    for bi in f.normal_blocks():
        t = f.blocks[bi]['t']
        if t['t'] != 'switch':
            continue
        pl = op_place(t['d'])
        if pl is None:
            continue
        for s in f.blocks[bi]['s']:
            if s.get('d', {}).get('l') == pl['l'] and s['r'].get('rv') == 'bin' and s['r']['op'] in ('Eq', 'Ne', 'Lt', 'Ge', 'Gt', 'Le'):
                a, b = s['r']['a'], s['r']['b']
                pa = op_place(a)
                k = const_usize(b)
                if pa is not None and k is not None and (pa['l'] == 2 or any(q == (('arg', 2),) for q in org.get(pa['l'], ()))):
                    if s['r']['op'] == 'Eq':
                        out.append((t['else'], k))      # true edge of `==`
                    elif s['r']['op'] == 'Ne':
                        for v, tb in t['cases']:
                            if v == 0:
                                out.append((tb, k))     # false edge of `!=`
                    elif s['r']['op'] == 'Lt':
                        for v, tb in t['cases']:
                            if v == 0:
                                out.append((tb, k))     # false edge of `num_args < K`: at least K
                    elif s['r']['op'] == 'Ge':
                        out.append((t['else'], k))      # true edge of `num_args >= K`
                    elif s['r']['op'] == 'Gt':
                        out.append((t['else'], k + 1))  # true edge of `num_args > K`
                    elif s['r']['op'] == 'Le':
                        for v, tb in t['cases']:
                            if v == 0:
                                out.append((tb, k + 1))  # false edge of `num_args <= K`
    return out


def arity_minus(g, pl, arity_local=2, is_arity=None):
    """c if the local holds `num_args - c` (c a constant), else None; in a closure `is_arity(place)` recognises the captured parameter"""
    cur = pl['l']
    for _ in range(4):
        defs = [s_ for b in g.blocks for s_ in b['s'] if s_.get('d', {}).get('l') == cur and not s_['d'].get('p')]
        if len(defs) != 1:
            return None
        rr = defs[0]['r']
        if rr.get('rv') == 'bin' and rr['op'] in ('Sub', 'SubWithOverflow'):
            pa = op_place(rr['a'])
            k = const_usize(rr['b'])
            def arity_place(p_):
                return (not p_.get('p') and p_['l'] == arity_local) or (is_arity is not None and is_arity(p_))
            if pa is not None and k is not None and arity_place(pa):
                return k
            if pa is not None and k is not None and not pa.get('p'):
                # the parameter was copied into a temporary first
                d2 = [s_ for b in g.blocks for s_ in b['s'] if s_.get('d', {}).get('l') == pa['l'] and not s_['d'].get('p')]
                if len(d2) == 1 and d2[0]['r'].get('rv') == 'use' and op_place(d2[0]['r']['o']) is not None and arity_place(op_place(d2[0]['r']['o'])):
                    return k
            return None
        if rr.get('rv') == 'use':
            p2 = op_place(rr['o'])
            if p2 is None:
                return None
            cur = p2['l']
            continue
        return None
    return None


def continue_successor(f, sw_block):
    """after `_b = Try::branch(r)`: the switch on discriminant(_b); return the Continue target"""
    if sw_block is None:
        return None
    t = f.blocks[sw_block]['t']
    if t['t'] != 'switch':
        return None
    # Continue = discriminant 0
    for v, b in t['cases']:
        if v == 0:
            return b
    return None


def p1(rep, w):
    nats = natives(w)
    r = rep.rule('P1', 'natives establish their arity before reading a stack slot at constant depth >= 1', floor=40)
    if len(nats) < 47:
        raise Broken('C02', 'floor', 'only %d natives found through NativeFn reifications (floor 47)' % len(nats))
    r.analysed = sorted(nats)
    for np_ in sorted(nats):
        f = w.fns[np_]
        facts = arity_facts(f)
        dom = f.dominators()
        for (eb, k) in facts:
            if eb is None:
                r.bad('%s / check_num_args result ignored' % np_, 'the Err of check_num_args(num_args, %d) is not propagated: the arity is not '
                      'established' % k, f.loc())
        bodies = [(f, None)]
        # closures defined in the native inherit the facts holding where they are created
        for g in w.fns.values():
            if g.parent == np_ and g.kind == 'Closure':
                cb = [bi for bi in f.normal_blocks() for s in f.blocks[bi]['s'] if s.get('r', {}).get('closure') == g.path]
                bodies.append((g, cb[0] if cb else None))
        for (g, at_block) in bodies:
            for bi, t in g.calls():
                if callee_name(t) not in PEEKS:
                    continue
                d = const_usize(t['args'][1]) if len(t['args']) > 1 else None
                site = '%s / %s(%s)' % (g.path, callee_name(t).rsplit('::', 1)[-1], d if d is not None else '?')
                if d is None:
                    # non-constant depth: must be the arity parameter itself (receiver slot)
                    pl = op_place(t['args'][1])
                    gorg = origins(g)
                    if g is f:
                        okv = pl is not None and (pl['l'] == 2 or any(q == (('arg', 2),) for q in gorg.get(pl['l'], ())))
                    else:
                        # closure: the depth must be the captured arity parameter of the native
                        arity_name = f.local_name(2)
                        cap = {}
                        for v in g.raw.get('vdi', []):
                            ps = v['p'].get('p', [])
                            if v['p']['l'] == 1 and ps and isinstance(ps[0], dict):
                                cap[ps[0].get('n')] = v['n']
                        okv = pl is not None and any(q[0] == ('arg', 1) and len(q) >= 2 and cap.get(q[1]) == arity_name for q in gorg.get(pl['l'], ()))
                    if not okv and pl is not None:
                        # `num_args - c`: a slot of the frame for every arity of at least c (established like a constant depth is)
                        if g is f:
                            c_ = arity_minus(g, pl)
                            blk_ = bi
                        else:
                            def is_arity(p_):
                                ps_ = [e for e in p_.get('p', []) if isinstance(e, dict)]
                                return p_['l'] == 1 and bool(ps_) and cap.get(ps_[0].get('n')) == arity_name
                            c_ = arity_minus(g, pl, None, is_arity)
                            blk_ = at_block
                        if c_ is not None and blk_ is not None:
                            okv = c_ == 0 or any(eb is not None and k >= c_ and eb in dom.get(blk_, ()) for (eb, k) in facts)
                    r.check(okv, site, 'stack slot read at a depth that is neither a constant nor the arity parameter (or the arity minus a constant it is known to reach)', g.loc(t.get('sp')))
                    continue
                if d == 0:
                    r.ok(site + ' (receiver/top slot exists for every arity)', sample=False)
                    continue
                blk = bi if g is f else at_block
                if blk is None:
                    r.bad(site, 'closure reads a stack slot but its creation site in the native was not found', g.loc(t.get('sp')))
                    continue
                good = any(eb is not None and k >= d and eb in dom.get(blk, ()) for (eb, k) in facts)
                r.check(good, site, 'stack slot at depth %d is read without a dominating arity check (check_num_args(num_args, K>=%d)? or '
                        'num_args == K): with fewer arguments this reads below the frame (unchecked read in optimised builds, panic in '
                        'checked ones)' % (d, d), g.loc(t.get('sp')))


def p2(rep, w):
    """natives never assume the kind of a program-chosen operand"""
    nats = natives(w)
    r = rep.rule('P2', 'no native unwraps/expects the kind of a stack operand (receivers included: method tables are copied into user subclasses)', floor=30)
    for np_ in sorted(nats):
        f = w.fns[np_]
        org = origins(f)
        for bi, t in f.calls():
            name = strip_generics(callee_name(t) or '')
            if name not in ('std::option::Option::expect', 'std::option::Option::unwrap'):
                continue
            pl = op_place(t['args'][0])
            if pl is None:
                continue
            slots = set()
            for q in org.get(pl['l'], ()):
                if q[0][0] == 'call' and q[0][2] in PEEKS and any(tok.startswith('@try_as_') or tok == '@try_into_bool' for tok in q[1:]):
                    pk = f.blocks[q[0][1]]['t']
                    d = const_usize(pk['args'][1]) if len(pk['args']) > 1 else None
                    conv = [tok for tok in q[1:] if tok.startswith('@try_')][0][1:]
                    slots.add((d if d is not None else 'num_args', conv))
            for (d, conv) in sorted(slots, key=str):
                r.bad('%s / peek(%s).%s' % (np_, d, conv),
                      'native panics (Option::%s) when the operand in slot %s is not of the assumed kind; slot kinds are chosen by the '
                      'program' % (name.rsplit('::', 1)[-1], d), f.loc(t.get('sp')))
            if not slots:
                r.ok('%s / %s on a non-operand value' % (np_, name.rsplit('::', 1)[-1]), sample=False)
    # natives that validate every operand
    for np_ in sorted(nats):
        if not any(v[0].startswith('P2 / ' + np_ + ' /') for v in r.violations):
            r.ok(np_)


def guard_live_blocks(f, create_block, guard_local):
    """blocks executed while the guard created by the call terminating create_block may be alive:
    reachable from its normal successor until a Drop of the guard / a move of it"""
    start = f.blocks[create_block]['t'].get('to')
    if start is None:
        return set()
    live = set()
    stack = [start]
    while stack:
        b = stack.pop()
        if b in live:
            continue
        live.add(b)
        t = f.blocks[b]['t']
        if t['t'] == 'drop' and t['p']['l'] == guard_local and not t['p'].get('p'):
            continue
        # moved away (returned or passed by value)
        moved = False
        for s in f.blocks[b]['s']:
            rr = s.get('r', {})
            if rr.get('rv') == 'use' and 'm' in rr['o'] and rr['o']['m']['l'] == guard_local and not rr['o']['m'].get('p'):
                moved = True
        if t['t'] == 'call':
            for a in t['args']:
                if 'm' in a and a['m']['l'] == guard_local and not a['m'].get('p'):
                    moved = True
        if moved or t['t'] == 'return':
            continue
        stack.extend(f.succs()[b])
    return live


def p3(rep, w):
    c = w.yarel
    mg = c01.may_gc(w)
    r = rep.rule('P3', 'no RefMut of a heap RefCell is alive across a may-collect call (marking borrows every RefCell it visits)', floor=30)
    managed = {im['adt'] for im in c01.gc_impls(w) if im['k'] == 'adt'}
    n = 0
    for f in sorted(w.fns.values(), key=lambda x: x.path):
        cr = f.crate
        for bi, t in f.calls():
            d = t['dst']
            if d.get('p'):
                continue
            dt = cr.ty(f.local_ty(d['l']))
            if not (dt['k'] == 'adt' and dt['n'] == 'std::cell::RefMut'):
                continue
            # is the cell a managed one? its payload type must be a GcManaged type
            inner = cr.ty(dt['a'][0]) if dt.get('a') else None
            if inner is None or not (inner['k'] == 'adt' and inner['n'] in managed):
                continue
            n += 1
            live = guard_live_blocks(f, bi, d['l'])
            hits = []
            for b in sorted(live):
                t2 = f.blocks[b]['t']
                if t2['t'] == 'call':
                    n2 = callee_name(t2)
                    if n2 is not None and n2 in mg:
                        hits.append((b, n2))
                    elif n2 is None and 'ind' in t2['f']:
                        # indirect call: may-GC if any possible target is
                        pass
            key = '%s / RefMut<%s> from %s' % (f.path, inner['s'], (callee_name(t) or '?').rsplit('::', 1)[-1])
            if hits:
                b, n2 = hits[0]
                r.bad(key, 'a mutable borrow of a heap cell is held while %s may run a collection; marking calls RefCell::borrow on the '
                      'same cell and panics (BorrowError)' % n2, f.loc(f.blocks[b]['t'].get('sp')))
            else:
                r.ok(key, sample=(n % 7 == 0))

# ---- P4: no conflicting re-borrow of a heap cell --------------------------------------------------------------------------
KEYED_MAP_OPS = ('insert', 'remove', 'get', 'get_mut', 'contains_key', 'entry', 'remove_entry', 'get_key_value')


def _guard_of(f, t, managed):
    """(payload ADT, 'mut' | 'shr') if this call hands back a Ref / RefMut of a heap cell (RefCell::borrow* itself or a wrapper
    such as active_fiber_mut)"""
    d = t['dst']
    if d.get('p'):
        return None
    cr = f.crate
    dt = cr.ty(f.local_ty(d['l']))
    if dt['k'] == 'adt' and dt['n'] in ('std::cell::RefMut', 'std::cell::Ref') and dt.get('a'):
        inner = cr.ty(dt['a'][0])
        if inner['k'] == 'adt' and inner['n'] in managed:
            return (inner['n'], 'mut' if dt['n'].endswith('RefMut') else 'shr')
    return None


def _fresh_receiver(f, t, mg, cache):
    """the cell borrowed here is an object this very function has just allocated (every origin of the receiver is the Root /
    UniqueRoot returned by an allocating call): it cannot be the cell another guard in reach is holding"""
    if not t['args']:
        return False
    pl = op_place(t['args'][0])
    if pl is None:
        return False
    if f.path not in cache:
        cache[f.path] = origins(f)
    paths = cache[f.path].get(pl['l'], ())
    if not paths:
        return False
    for q in paths:
        root = q[0]
        if root[0] != 'call':
            return False
        bt = f.blocks[root[1]]['t']
        n = callee_name(bt)
        dt = f.crate.ty(f.local_ty(bt['dst']['l']))
        if not (n in mg and dt['k'] == 'adt' and dt['n'].rsplit('::', 1)[-1] in ('Root', 'UniqueRoot')):
            return False
    return True


def _compared_handles(f, t1, t2, at_block, cache):
    """the two cells borrowed by t1 and t2 were compared for identity (`a == b` on the two handles) on the way to the second borrow:
    code that has dealt with the "same object" case before borrowing both"""
    if f.path not in cache:
        cache[f.path] = origins(f)
    org = cache[f.path]

    def roots(t):
        pl = op_place(t['args'][0]) if t['args'] else None
        return {q[0] for q in org.get(pl['l'], ())} if pl else set()
    r1, r2 = roots(t1), roots(t2)
    if not r1 or not r2:
        return False
    dom = f.dominators()
    for bi, t in f.calls():
        n = callee_name(t) or ''
        if not (n.endswith('::eq') or n.endswith('::ne') or n.endswith('ptr_eq')) or len(t['args']) != 2 or bi not in dom.get(at_block, ()):
            continue
        sides = []
        for a in t['args']:
            pl = op_place(a)
            sides.append({q[0] for q in org.get(pl['l'], ())} if pl else set())
        if (sides[0] & r1 and sides[1] & r2) or (sides[0] & r2 and sides[1] & r1):
            return True
    return False


def _site_targets(w, f, t):
    """workspace functions this call may enter; for a keyed operation of a std HashMap only the key type's Hash / Eq"""
    tg, ext, _ = w.call_targets(f, t)
    if ext and 'std::collections::HashMap' in ext and ext.rsplit('::', 1)[-1] in KEYED_MAP_OPS:
        fr = t['f']
        ra = fr.get('ra', fr.get('a', []))
        if ra:
            ks = f.crate.tstr(ra[0])
            tg = {x for x in tg if ('for %s>' % ks) in x or ('<%s as ' % ks) in x}
    return tg


def p4(rep, w):
    """RefCell's dynamic check panics (BorrowError / BorrowMutError) when a cell is borrowed mutably while any other borrow of
    it is alive. Aliasing is not tracked: two borrows conflict when they are of the same payload type, at least one is mutable,
    and the second can happen (call graph) while the guard of the first is alive -- except when one of the two cells is an
    object allocated in the borrowing function itself."""
    mg = c01.may_gc(w)
    managed = {im['adt'] for im in c01.gc_impls(w) if im['k'] == 'adt'}
    exc = {e['key']: e for e in c01.table('c02_reborrow_ok.json')}
    r = rep.rule('P4', 'no heap cell can be borrowed again (same payload type, one side mutable) while a guard of it is alive', floor=60)
    cache = {}
    direct = defaultdict(set)
    for f in w.fns.values():
        for bi, t in f.calls():
            g = _guard_of(f, t, managed)
            if g and not _fresh_receiver(f, t, mg, cache):
                direct[f.path].add(g)
    edges = {}
    for f in w.fns.values():
        s = set()
        for bi, t in f.calls(only_normal=False):
            s |= _site_targets(w, f, t)
        edges[f.path] = s
    trans = {p: set(direct.get(p, ())) for p in w.fns}
    changed = True
    while changed:
        changed = False
        for a, bs in edges.items():
            for b in bs:
                if b in trans and not trans[b] <= trans[a]:
                    trans[a] |= trans[b]
                    changed = True
    used = set()
    for f in sorted(w.fns.values(), key=lambda x: x.path):
        for bi, t in f.calls():
            g = _guard_of(f, t, managed)
            if not g or _fresh_receiver(f, t, mg, cache):
                continue
            live = guard_live_blocks(f, bi, t['dst']['l'])
            confl = {}
            for b in sorted(live):
                t2 = f.blocks[b]['t']
                if t2['t'] != 'call':
                    continue
                g2 = _guard_of(f, t2, managed)
                cn = (callee_name(t2) or 'indirect call')
                if g2 and g2[0] == g[0] and 'mut' in (g[1], g2[1]) and not _fresh_receiver(f, t2, mg, cache) and not _compared_handles(f, t, t2, b, cache):
                    confl.setdefault(strip_generics(cn).rsplit('::', 1)[-1], (b, 'this function borrows a %s again' % g[0].rsplit('::', 1)[-1]))
                for x in sorted(_site_targets(w, f, t2)):
                    # a keyed operation on a HashMap<Value, ..> runs == / hash of *keys*; keys of a map are hashable values, and no hashable
                    # kind is or contains a map (C12 H1 / H2 decide exactly that), so they never borrow an ObjHashMap
                    if g[0].endswith('::ObjHashMap') and strip_generics(cn).rsplit('::', 1)[-1] in KEYED_MAP_OPS + ('extend',) and \
                            x in ('yarel::<value::Value as std::cmp::PartialEq>::eq', 'yarel::<value::Value as std::hash::Hash>::hash'):
                        continue
                    if g[0].endswith('::ObjHashMap') and _keyed_wrapper(w, x):
                        # a method of the map object that only wraps keyed operations on its own table (insert / remove that also keep a
                        # counter): like the keyed operation itself, it runs == / hash of keys only
                        continue
                    if g[0].endswith('::ObjHashMap') and _closure_over_validated_keys(w, f, x, direct):
                        # a closure of this function that can only see values which validate_hash_map_key accepted (an error message quoting
                        # the key): a hashable value is not and does not contain a map (C12 H1 / H2), so showing it borrows no ObjHashMap
                        continue
                    for (T, k) in sorted(trans.get(x, ())):
                        if T == g[0] and 'mut' in (g[1], k):
                            confl.setdefault(strip_generics(cn).rsplit('::', 1)[-1], (b, '%s can borrow a %s (%s)' % (x, T.rsplit('::', 1)[-1], k)))
            short = g[0].rsplit('::', 1)[-1]
            if not confl:
                r.ok('%s / %s<%s>' % (f.path, 'RefMut' if g[1] == 'mut' else 'Ref', short), sample=False)
            for cn, (b, why) in sorted(confl.items()):
                key = '%s / %s<%s> held across %s' % (f.path, 'RefMut' if g[1] == 'mut' else 'Ref', short, cn)
                if ('P4 / ' + key) in exc:
                    used.add('P4 / ' + key)
                    r.ok(key + ' (listed: %s)' % exc['P4 / ' + key]['reason'][:80])
                else:
                    r.bad(key, 'a %s borrow of a heap cell is alive while %s: if it is the same object the interpreter panics '
                          '(already borrowed)' % ('mutable' if g[1] == 'mut' else 'shared', why), f.loc(f.blocks[b]['t'].get('sp')))
    for k in exc:
        if k not in used:
            r.note('table entry no longer needed: %s' % k)


def _keyed_wrapper(w, x):
    g = w.fns.get(x)
    if g is None or g.kind == 'Closure' or g.impl_self is None or g.crate.ty(g.impl_self).get('n') != 'yarel::object::ObjHashMap':
        return False
    for _, t in g.calls(only_normal=False):
        n = callee_name(t) or ''
        if not n.startswith(('std::', 'core::', 'alloc::', 'hashbrown::')):
            return False
    return True


def _closure_over_validated_keys(w, f, x, direct):
    g = w.fns.get(x)
    if g is None or g.kind != 'Closure' or g.parent != f.path or direct.get(x):
        return False
    org = None
    found = False
    for b in f.blocks:
        for s_ in b['s']:
            rr = s_.get('r', {})
            if rr.get('rv') == 'agg' and rr.get('closure') == x:
                found = True
                if org is None:
                    org = origins(f)
                for o in rr['ops']:
                    pl = op_place(o)
                    if pl is None:
                        continue
                    ts = f.crate.tstr(f.local_ty(pl['l']))
                    if 'Value' in ts and not any(m in ts for m in ('Vm', 'Gc<', 'Root<', 'RefCell')):
                        roots = org.get(pl['l'], ())
                        if not roots or not all(q[0][0] == 'call' and q[0][2].endswith('validate_hash_map_key') for q in roots):
                            return False
                    elif any(m in ts for m in ('Vm', 'Gc<', 'Root<', 'RefCell', 'Value')):
                        return False
    return found


def diverges(f, b, depth=0):
    """block b (following gotos and constant cfg! switches' both arms) ends in unreachable / a call that
    never returns (panic)"""
    if depth > 6:
        return False
    t = f.blocks[b]['t']
    if t['t'] == 'unreachable':
        return True
    if t['t'] == 'call' and t.get('to') is None:
        return True
    if t['t'] == 'goto':
        return diverges(f, t['to'], depth + 1)
    if t['t'] == 'switch':
        return all(diverges(f, x, depth + 1) for x in [c[1] for c in t['cases']] + [t['else']])
    if t['t'] == 'call' and t.get('to') is not None and (callee_name(t) or '').startswith(('core::fmt', 'std::fmt')):
        return diverges(f, t['to'], depth + 1)
    return False


def p5(rep, w):
    c = w.yarel
    r = rep.rule('P5', 'dispatch is total: every OpCode / Value variant has an arm in each sibling table', floor=6)
    op = c.adts.get('yarel::chunk::OpCode')
    val = c.adts.get('yarel::value::Value')
    if op is None or val is None:
        raise Broken('C02', 'anchor', 'OpCode / Value enum not found')
    opv = [v['n'] for v in op['variants']]
    valv = [v['n'] for v in val['variants']]
    r.note('%d opcodes, %d value kinds' % (len(opv), len(valv)))

    def constructed(f, adt):
        out = set()
        for b in f.blocks:
            for s in b['s']:
                rr = s.get('r', {})
                if rr.get('rv') == 'agg' and rr.get('adt') == adt:
                    out.add(rr['v'])
        return out

    def switched(f, adt_def):
        """variants that have their own target in a switch on the discriminant of a value of this enum"""
        byd = {v.get('discr', i): v['n'] for i, v in enumerate(adt_def['variants'])}
        out = set()
        has_live_otherwise = False
        for bi in f.normal_blocks():
            b = f.blocks[bi]
            t = b['t']
            if t['t'] != 'switch':
                continue
            pl = op_place(t['d'])
            if pl is None:
                continue
            for s in b['s']:
                if s.get('d', {}).get('l') == pl['l'] and s['r'].get('rv') == 'discr':
                    ptid = s['r']['p'].get('t', f.local_ty(s['r']['p']['l']))
                    pt = f.crate.ty(f.crate.peel_refs(ptid))
                    if pt.get('n') == adt_def['path']:
                        for v, tb in t['cases']:
                            if v in byd:
                                out.add(byd[v])
                        if not diverges(f, t['else']):
                            has_live_otherwise = True
        return out, has_live_otherwise

    def compared_consts(f):
        """integer constants (possibly behind an IntToInt cast) that appear as an operand of `==`"""
        vals = set()
        for bi in f.normal_blocks():
            consts = {}
            for s in f.blocks[bi]['s']:
                rr = s.get('r', {})
                if rr.get('rv') in ('cast', 'use'):
                    k = op_const(rr['o'])
                    if k is not None and 'v' in k and not s['d'].get('p'):
                        consts[s['d']['l']] = k['v']
                if rr.get('rv') == 'bin' and rr['op'] == 'Eq':
                    for o in (rr['a'], rr['b']):
                        k = op_const(o)
                        if k is not None and 'v' in k:
                            vals.add(k['v'])
                        pl = op_place(o)
                        if pl is not None and pl['l'] in consts:
                            vals.add(consts[pl['l']])
        return vals

    discr = {v.get('discr', i): v['n'] for i, v in enumerate(op['variants'])}
    runf = w.require_fn('yarel::vm::Vm::run', 'C02')
    got = compared_consts(runf)
    missing = [n for d, n in sorted(discr.items()) if d not in got]
    r.check(not missing, 'Vm::run arms', 'opcodes with no dispatch arm in Vm::run (unreachable_unchecked in optimised builds): %s' % missing, runf.loc())
    fromf = w.require_fn('yarel::<chunk::OpCode as std::convert::From<u8>>::from', 'C02')
    got = compared_consts(fromf)
    made = constructed(fromf, 'yarel::chunk::OpCode')
    missing = [n for d, n in sorted(discr.items()) if d not in got or n not in made]
    r.check(not missing, 'OpCode::from(u8) arms', 'opcodes that From<u8> cannot produce: %s' % missing, fromf.loc())
    for path, what in (('yarel::chunk::OpCode::arg_sizes', 'OpCode::arg_sizes'), ('yarel::debug::disassemble_instruction', 'disassembler')):
        f = w.require_fn(path, 'C02')
        got, other = switched(f, op)
        missing = [v for v in opv if v not in got]
        r.check(not missing or other, what + ' arms', 'opcodes without an arm: %s' % missing, f.loc())
    for path, what in (('yarel::vm::Vm::get_class', 'Vm::get_class'), ('yarel::<value::Value as std::fmt::Display>::fmt', 'Display for Value')):
        f = w.require_fn(path, 'C02')
        got, other = switched(f, val)
        missing = [v for v in valv if v not in got]
        r.check(not missing or other, what + ' arms', 'value kinds without an arm: %s' % missing, f.loc())


def sccs(nodes, edges):
    """Tarjan, iterative"""
    index = {}
    low = {}
    on = set()
    st = []
    out = []
    counter = [0]
    for root in nodes:
        if root in index:
            continue
        work = [(root, iter(sorted(edges.get(root, ()))))]
        index[root] = low[root] = counter[0]
        counter[0] += 1
        st.append(root)
        on.add(root)
        while work:
            v, it = work[-1]
            adv = False
            for w_ in it:
                if w_ not in nodes:
                    continue
                if w_ not in index:
                    index[w_] = low[w_] = counter[0]
                    counter[0] += 1
                    st.append(w_)
                    on.add(w_)
                    work.append((w_, iter(sorted(edges.get(w_, ())))))
                    adv = True
                    break
                elif w_ in on:
                    low[v] = min(low[v], index[w_])
            if adv:
                continue
            work.pop()
            if work:
                low[work[-1][0]] = min(low[work[-1][0]], low[v])
            if low[v] == index[v]:
                comp = []
                while True:
                    x = st.pop()
                    on.discard(x)
                    comp.append(x)
                    if x == v:
                        break
                out.append(comp)
    return out


def recursion_census(w, roots, prefix_filter=None):
    cg = w.callgraph()
    reach = w.reach_from(roots)
    nodes = {n for n in reach if n in w.fns and (prefix_filter is None or prefix_filter(n))}
    comps = []
    for comp in sccs(nodes, cg):
        if len(comp) > 1 or comp[0] in cg.get(comp[0], ()):
            comps.append(sorted(comp))
    return comps


def scc_key(w, comp):
    """a key that survives a new type joining an existing recursion, and a loop of the recursion being written with an iterator adapter: the
    set of method identities (trait::method for trait impl methods, the path for inherent functions); a closure counts as the function it
    is written in"""
    ids = set()
    for p in comp:
        f = w.fns[p]
        seen = 0
        while f.kind == 'Closure' and w.fns.get(f.parent) is not None and seen < 8:
            f = w.fns[f.parent]
            seen += 1
        if f.impl_trait:
            ids.add(f.impl_trait.replace('yarel::', '').replace('std::', '') + '::' + f.name)
        else:
            ids.add(f.path.replace('yarel::', ''))
    return ' + '.join(sorted(ids))


def p6(rep, w):
    r = rep.rule('P6', 'recursion over program-built data: every call-graph cycle reachable from Vm::run / Heap::collect is a known, '
                 'recorded one (no depth or cycle guard exists for them)', floor=3)
    comps = recursion_census(w, {'yarel::vm::Vm::run', 'yarel::memory::Heap::collect'},
                             lambda n: not n.startswith('yarel::compiler::') and not n.startswith('yarel::scanner::'))
    tab = {e['key']: e for e in c01.table('c02_recursion_ok.json')}
    for comp in comps:
        key = scc_key(w, comp)
        if key in tab:
            r.ok('%s (bounded: %s)' % (key, tab[key]['why']))
        else:
            r.bad(key, 'unbounded recursion on the host stack over data the program builds (deep or cyclic data overflows the '
                  'native stack: process abort, not a reported error)', w.fns[comp[0]].loc())
    r.note('%d recursive components reachable from run/collect' % len(comps))


def p7(rep, w):
    r = rep.rule('P7', 'value-stack capacity: a push is preceded by a capacity test in every configuration', floor=1)
    f = w.require_fn('yarel::stack::Stack::<T, N>::push', 'C02')
    # blocks that compare len() with N and the cfg! constant guarding them
    cfg_guard = False
    cmp_found = False
    for bi in f.normal_blocks():
        b = f.blocks[bi]
        for s in b['s']:
            rr = s.get('r', {})
            if rr.get('rv') == 'use':
                k = op_const(rr['o'])
                if k is not None and k.get('mac', '').endswith('cfg'):
                    cfg_guard = True
            if rr.get('rv') == 'bin' and rr['op'] in ('Eq', 'Ge', 'Gt'):
                cmp_found = True
    # does call_closure (or any caller on the call path) test the stack height?
    cc = w.require_fn('yarel::vm::Vm::call_closure', 'C02')
    tests_height = any(callee_name(t) in ('yarel::vm::Vm::stack_size', 'yarel::stack::Stack::<T, N>::len') for _, t in cc.calls())
    r.check((cmp_found and not cfg_guard) or tests_height, 'Stack::push unchecked in optimised builds',
            'the only capacity test of the value stack is under cfg!(debug_assertions | safe_stack); call_closure bounds the frame '
            'count (FRAMES_MAX) but not a frame\'s temporaries, so STACK_MAX = LOCALS_MAX x FRAMES_MAX can be exceeded and the '
            'optimised build writes past the stack allocation', f.loc())


def p11(rep, w):
    """P7 is about the value stack (a recorded finding). Any *other* use of the fixed-capacity Stack type is a new unchecked buffer:
    in optimised builds Stack::push writes without a bounds test, so each instantiation other than the value stack needs its own
    capacity test in front of every push."""
    r = rep.rule('P11', 'a fixed-capacity Stack other than the value stack is only pushed to behind a capacity test', floor=0)
    n = 0
    for f in sorted(w.yarel.fns.values(), key=lambda x: x.path):
        for bi, t in f.calls():
            if strip_generics(callee_name(t) or '') != 'yarel::stack::Stack::push':
                continue
            tys = [f.crate.tstr(a) for a in (t['f'].get('ra') or t['f'].get('a') or [])]
            if not tys or tys[0].endswith('value::Value') or tys[0] == 'T':
                continue
            n += 1
            dom = f.dominators()
            guarded = False
            for b in f.normal_blocks():
                if b not in dom.get(bi, ()) or f.blocks[b]['t']['t'] != 'switch':
                    continue
                for s_ in f.blocks[b]['s']:
                    rr = s_.get('r', {})
                    if rr.get('rv') == 'bin' and rr['op'] in ('Lt', 'Le', 'Gt', 'Ge', 'Eq', 'Ne'):
                        sides = [origins(f).get((op_place(o) or {}).get('l'), set()) for o in (rr['a'], rr['b'])]
                        if any(any(q[0][0] == 'call' and strip_generics(q[0][2]).endswith('::len') for q in sd) for sd in sides):
                            guarded = True
            r.check(guarded, '%s / push onto Stack<%s>' % (f.path.replace('yarel::', ''), tys[0]),
                    'a Stack<%s, N> is pushed to without a test of its length against the capacity: in optimised builds Stack::push does not check, so the entry beyond the '
                    'capacity is written past the allocation (checked builds panic)' % tys[0], f.loc(t.get('sp')))
    r.ok('census of pushes onto non-value Stacks: %d' % n)


def p8(rep, w):
    import locks
    r = rep.rule('P8', 'cycle guards of the recursive Display implementations are restored on every exit', floor=3)
    paths = [p for p, f in w.fns.items() if f.impl_trait == 'std::fmt::Display' and p.startswith('yarel::<object::')]
    locks.check_guards(r, w, sorted(paths))


def p9(rep, w):
    """a cursor into a container that the program can shrink must be guarded by a range test (`>=` / `<`) against the
    container's length, not by an equality test: once the cursor is past the end an equality test never fires again"""
    import c13
    c = w.yarel
    r = rep.rule('P9', 'indices guarded by a comparison with len() use a range test, not equality', floor=2)
    n = 0
    for f in sorted(c.fns.values(), key=lambda x: x.path):
        if not f.file.endswith(('object.rs', 'core.rs', 'vm.rs')):
            continue
        uses = c13.index_uses(f)
        if not uses:
            continue
        org = origins(f)
        dom = f.dominators()

        def ident(o):
            k = op_const(o)
            if k is not None:
                return set()
            pl = op_place(o)
            if pl is None:
                return set()
            out = set()
            toks0 = tuple(e.get('n') for e in pl.get('p', []) if isinstance(e, dict) and 'n' in e)
            for q in org.get(pl['l'], {(('local', pl['l']),)}):
                toks = tuple(t for t in q[1:] if not t.startswith('@') and t != '*' and not t.startswith('in ') and not t.startswith('as ')) + toks0
                out.add(toks if toks else (q[0],))
            return out

        def is_len(o):
            pl = op_place(o)
            if pl is None:
                return False
            return any(q[0][0] == 'call' and strip_generics(q[0][2]).endswith('::len') for q in org.get(pl['l'], ()))
        for (bi, kind, idx, base, sp) in uses:
            ids = ident(idx)
            if not ids:
                continue
            ops = []
            for b2 in dom.get(bi, ()):
                for s in f.blocks[b2]['s']:
                    rr = s.get('r', {})
                    if rr.get('rv') == 'bin' and rr['op'] in ('Eq', 'Ne', 'Lt', 'Le', 'Gt', 'Ge'):
                        for x, y in ((rr['a'], rr['b']), (rr['b'], rr['a'])):
                            if ident(x) & ids and is_len(y):
                                ops.append(rr['op'])
            if not ops:
                continue
            n += 1
            key = '%s / index guarded by %s len()' % (f.path, '/'.join(sorted(set(ops))))
            r.check(any(o in ('Lt', 'Le', 'Gt', 'Ge') for o in ops), key,
                    'the index is compared with len() only for equality: if the container shrinks below the cursor the test never fires and the '
                    'index goes out of bounds (host panic)', f.loc(sp))
    if n < 2:
        raise Broken('C02', 'floor', 'P9: only %d len()-guarded index sites found' % n)


CURSOR_FIELDS = None


def p10(rep, w):
    """an iterator over a collection the program can shrink between two steps (a Vec popped inside the loop over it) has to compare its
    cursor with the collection's *current* length on every step: the index handed to Index::index in an iterator's next() is
    dominated, in the same call, by a comparison of that index with a len() result"""
    r = rep.rule('P10', 'iterators over mutable collections compare their cursor with the current length before every element read', floor=1)
    n = 0
    # the cursor fields: integer fields of the iterator types (struct names ending in Iter in object.rs)
    global CURSOR_FIELDS
    CURSOR_FIELDS = set()
    for an, ad in w.yarel.adts.items():
        if an.startswith('yarel::object::') and an.endswith('Iter') and ad.get('variants'):
            for fd in ad['variants'][0]['fields']:
                if w.yarel.tstr(fd['t']) in ('usize', 'isize'):
                    CURSOR_FIELDS.add(fd['n'])
    for f in sorted(w.yarel.fns.values(), key=lambda x: x.path):
        st_ = f.crate.ty(f.raw['impl_self']).get('n', '') if f.raw.get('impl_self') is not None else ''
        is_next = f.raw.get('name') == 'next' and st_.startswith('yarel::object::') and st_.endswith('Iter')
        if not is_next and not f.file.endswith(('object.rs', 'core.rs')):
            continue
        # only collections a program can change while the iterator exists (held in a RefCell); a tuple's length is fixed
        if not any(strip_generics(callee_name(t) or '').endswith('RefCell::borrow') or strip_generics(callee_name(t) or '').endswith('RefCell::borrow_mut') for _, t in f.calls()):
            continue
        org = origins(f)
        dom = f.dominators()

        def from_cursor(l):
            """the index is a cursor kept in an iterator object (a field named like the cursor of one of the iterator types), not a
            value that was validated on its way from the stack"""
            return any(any(tk in CURSOR_FIELDS for tk in q[1:]) for q in org.get(l, ()))
        reads = []        # (block, index local, span)
        for bi, t in sorted(f.calls()):
            nm = callee_name(t) or ''
            unchecked = nm.endswith('::get_unchecked') or nm.endswith('::get_unchecked_mut')
            if not (('Index' in nm and '::index' in nm) or unchecked):
                continue
            tys = [f.crate.tstr(a) for a in (t['f'].get('ra') or t['f'].get('a') or [])]
            ipl = op_place(t['args'][1])
            if 'usize' in tys or unchecked:
                if is_next or (ipl and from_cursor(ipl['l'])):
                    reads.append((bi, ipl['l'] if ipl else None, t.get('sp')))
            elif any('ops::Range' in x for x in tys) and ipl is not None:
                # elements[cursor..]: the endpoints of the range
                for b2 in f.blocks:
                    for s2 in b2['s']:
                        if (s2.get('d') or {}).get('l') == ipl['l'] and s2['r'].get('rv') == 'agg':
                            for o in s2['r'].get('ops', []):
                                ep = op_place(o)
                                if ep is not None and from_cursor(ep['l']):
                                    reads.append((bi, ep['l'], t.get('sp')))
        for bi in sorted(f.normal_blocks()):
            for s_ in f.blocks[bi]['s']:
                rr = s_.get('r', {})
                pl = op_place(rr.get('o', {}) or {}) if rr.get('rv') == 'use' else None
                for e in (pl or {}).get('p', []):
                    if isinstance(e, dict) and 'i' in e:
                        reads.append((bi, e['i'], s_.get('sp')))       # built-in indexing of a slice
        for (bi, il, sp_) in reads:
            n += 1
            idx = org.get(il, set()) if il is not None else set()
            guarded = False
            for b in f.normal_blocks():
                tt = f.blocks[b]['t']
                if tt['t'] != 'switch' or b not in dom.get(bi, ()):
                    continue
                for s_ in f.blocks[b]['s']:
                    rr = s_.get('r', {})
                    if rr.get('rv') == 'bin' and rr['op'] in ('Lt', 'Le', 'Gt', 'Ge'):
                        sides = [org.get((op_place(o) or {}).get('l'), set()) for o in (rr['a'], rr['b'])]
                        has_len = any(any(q[0][0] == 'call' and strip_generics(q[0][2]).endswith('::len') for q in sd) for sd in sides)
                        same = any(sd & idx for sd in sides) if idx else False
                        if has_len and same:
                            guarded = True
                    if rr.get('rv') == 'bin' and rr['op'] in ('Eq', 'Ne') and (op_const(rr['b']) or {}).get('v') == 0:
                        # `len.saturating_sub(cursor) == 0`: nothing left at or beyond the cursor
                        for q in org.get((op_place(rr['a']) or {}).get('l'), ()):
                            if q[0][0] == 'call' and strip_generics(q[0][2]).endswith('::saturating_sub'):
                                ct = f.blocks[q[0][1]]['t']
                                sides = [org.get((op_place(o) or {}).get('l'), set()) for o in ct['args']]
                                if len(sides) == 2 and any(q2[0][0] == 'call' and strip_generics(q2[0][2]).endswith('::len') for q2 in sides[0]) and (sides[1] & idx):
                                    guarded = True
            r.check(guarded, '%s / element read' % f.path.replace('yarel::object::', ''), 'the iterator reads element [cursor] without having compared the cursor with the '
                    'collection\'s current len() in this call: after the loop body shrinks the collection the interpreter panics (index out of bounds) instead of ending the loop', f.loc(sp_))
    if n < 1:
        raise Broken('C02', 'floor', 'P10: %d indexed reads in iterator next() functions' % n)


def p12(rep, w, prop='C02'):
    """numbers are f64 and NaN is a number a program can make: `a.partial_cmp(&b)` answers None for it, so unwrapping that answer (sorting,
    min / max, a comparison helper) is a host panic on a value the program chose. Every use of partial_cmp on f64 in the crate handles the None."""
    r = rep.rule('P12', 'no result of f64::partial_cmp is unwrapped', floor=0)
    n = 0
    for f in sorted(w.yarel.fns.values(), key=lambda x: x.path):
        sites = [(bi, t) for bi, t in f.calls() if strip_generics(callee_name(t) or '').endswith('partial_cmp')]
        if not sites:
            continue
        org = origins(f)
        for bi, t in sites:
            n += 1
            bad = []
            for bj, t2 in f.calls():
                n2 = strip_generics(callee_name(t2) or '')
                if n2.rsplit('::', 1)[-1] in ('unwrap', 'expect', 'unwrap_unchecked') and t2['args']:
                    a = op_place(t2['args'][0])
                    if a is not None and any(q[0][0] == 'call' and q[0][1] == bi for q in org.get(a['l'], ())):
                        bad.append(n2.rsplit('::', 1)[-1])
            r.check(not bad, '%s / partial_cmp result is not unwrapped' % f.path.replace('yarel::', ''),
                    '%s unwraps the result of partial_cmp: comparing a NaN panics the host' % f.path, f.loc(t.get('sp')))
    r.note('partial_cmp call sites: %d' % n)


def p13(rep, w, prop='C02'):
    """outside the compiler (whose casts C04 B4 bounds) the interpreter narrows no integer it cannot bound: a stack height, a count or a character
    squeezed into a u8 / u16 wraps for the 256th local, the 65536th element, the first non-Latin letter. Census today: none; any new one has to
    be bounded by the interval interpreter (a comparison on the way that the value passes only when it fits)."""
    import c04_narrow as cn
    r = rep.rule('P13', 'every narrowing integer cast outside the compiler has an operand that provably fits', floor=0)
    c = w.yarel
    WIDTH = {'u8': 8, 'i8': 8, 'u16': 16, 'i16': 16, 'u32': 32, 'i32': 32, 'char': 32, 'u64': 64, 'i64': 64, 'usize': 64, 'isize': 64}
    n = 0
    for f in sorted(c.fns.values(), key=lambda x: x.path):
        if f.file.endswith(('compiler.rs', 'debug.rs')):
            continue
        sites = []
        for bi in f.normal_blocks():
            for si, s_ in enumerate(f.blocks[bi]['s']):
                rr = s_.get('r', {})
                if rr.get('rv') == 'cast' and 'IntToInt' in rr.get('ck', ''):
                    tgt = c.tstr(rr['t'])
                    pl = op_place(rr['o'])
                    k = op_const(rr['o'])
                    src = c.tstr(pl.get('t', f.local_ty(pl['l']))) if pl is not None else (c.tstr(k['t']) if k else '?')
                    if src in WIDTH and tgt in WIDTH and WIDTH[tgt] < WIDTH[src] and k is None:
                        sites.append((bi, si, src, tgt, s_))
        if not sites:
            continue
        it = cn.Interp(w, f, {})
        it.err = set()
        saved = dict(cn.TYPE_RANGE)
        cn.TYPE_RANGE.setdefault('char', (0, 0x10ffff))
        try:
            it.run()
            for (bi, si, src, tgt, s_) in sites:
                n += 1
                st = it.transfer_prefix(bi, si)
                iv = it.eval_op(st, s_['r']['o'])
                lo, hi = cn.TYPE_RANGE.get(tgt, (0, 0))
                if src == 'char' and tgt == 'u8' and _ascii_guarded(f, bi, op_place(s_['r']['o'])):
                    r.ok('%s / char as u8 behind a test that the character is one byte long (is_ascii / len_utf8() == 1)' % f.path.replace('yarel::', ''))
                    continue
                r.check(iv[0] >= lo and iv[1] <= hi, '%s / %s as %s' % (f.path.replace('yarel::', ''), src, tgt),
                        '%s narrows a %s to %s and the operand can be as large as %s: the value wraps (the 256th slot becomes slot 0, a letter beyond Latin-1 becomes an ASCII one)'
                        % (f.path, src, tgt, 'unbounded' if iv[1] >= cn.INF else iv[1]), f.loc(s_.get('sp')))
        finally:
            cn.TYPE_RANGE.clear()
            cn.TYPE_RANGE.update(saved)
    r.note('narrowing casts outside the compiler: %d' % n)


def _ascii_guarded(f, cast_block, pl):
    """the cast of a char sits on the true edge of `c.is_ascii()` or of `c.len_utf8() == 1` for the same character: it is below 128"""
    if pl is None:
        return False
    org = origins(f)
    dom = f.dominators()
    mine = set(org.get(pl['l'], ())) | {(('local', pl['l']),)}
    for bi, t in f.calls():
        tail = strip_generics(callee_name(t) or '').rsplit('::', 1)[-1]
        if tail not in ('is_ascii', 'len_utf8') or not t['args']:
            continue
        ap = op_place(t['args'][0])
        if ap is None or not ((set(org.get(ap['l'], ())) | {(('local', ap['l']),)}) & mine):
            continue
        for sb in f.normal_blocks():
            tt = f.blocks[sb]['t']
            if tt['t'] != 'switch':
                continue
            dp = op_place(tt['d'])
            if dp is None:
                continue
            ok = False
            if tail == 'is_ascii':
                ok = dp['l'] == t['dst']['l'] or any(q[0][0] == 'call' and q[0][1] == bi for q in org.get(dp['l'], ()))
            else:
                for s_ in f.blocks[sb]['s']:
                    rr = s_.get('r', {})
                    if (s_.get('d') or {}).get('l') == dp['l'] and rr.get('rv') == 'bin' and rr['op'] == 'Eq':
                        k = op_const(rr['b']) or op_const(rr['a'])
                        o = op_place(rr['a']) or op_place(rr['b'])
                        if k is not None and k.get('v') == 1 and o is not None and (o['l'] == t['dst']['l'] or any(q[0][0] == 'call' and q[0][1] == bi for q in org.get(o['l'], ()))):
                            ok = True
            if ok and tt['else'] in dom.get(cast_block, ()) | {cast_block} and tt['else'] not in [cb for v, cb in tt['cases']]:
                return True
    return False


def p14(rep, w, prop='C02'):
    """a built-in answers a failed expectation with an Err, never with a host panic: the functions the interpreter registers as natives (signature
    fn(&mut Vm, usize) -> Result<Value, Error>), their closures and the helpers of core.rs / utils.rs they call contain no unwrap / expect of an
    Option or Result. (Census today: none - every `None` / `Err` a native can meet on program-chosen data is turned into an error value, e.g.
    Utf8Error::error_len() is None for input that ends inside a sequence.)"""
    r = rep.rule('P14', 'no unwrap / expect of an Option or Result in the built-ins and their helpers', floor=40)
    c = w.yarel
    natives = []
    for f in c.fns.values():
        if f.kind == 'Closure' or f.argc != 2 or not f.file.endswith('core.rs'):
            continue
        ret, a1, a2 = c.tstr(f.local_ty(0)), c.tstr(f.local_ty(1)), c.tstr(f.local_ty(2))
        if 'Result<' in ret and 'Value' in ret and a1.startswith('&mut') and a1.endswith('Vm') and a2 == 'usize':
            natives.append(f.path)
    seen, todo = set(), list(natives)
    while todo:
        p_ = todo.pop()
        if p_ in seen or p_ not in c.fns:
            continue
        seen.add(p_)
        g = c.fns[p_]
        for _, t in g.calls(only_normal=False):
            tg, _, _ = w.call_targets(g, t)
            todo.extend(x for x in tg if x in c.fns and (c.fns[x].file.endswith(('core.rs', 'utils.rs'))))
    n = 0
    for p_ in sorted(seen):
        g = c.fns[p_]
        bad = []
        org = None
        for bi, t in g.calls():
            nm = strip_generics(callee_name(t) or '')
            tail = nm.rsplit('::', 1)[-1]
            if tail in ('unwrap', 'expect', 'unwrap_unchecked') and ('Option' in nm or 'Result' in nm) and not (isinstance(t.get('sp'), list) and t['sp'][1]):
                org = org or origins(g)
                pl = op_place(t['args'][0]) if t['args'] else None
                srcs = {strip_generics(q[0][2]).rsplit('::', 1)[-1] for q in org.get(pl['l'], ()) if q[0][0] == 'call'} if pl is not None else set()
                # char::from_digit(nibble, 16): None only for a digit that is not below the radix - an argument the code computes (a masked
                # nibble), not data the program chose; every other partial answer (decoding, parsing, searching, indexing, popping) is
                if srcs and srcs <= {'from_digit'}:
                    continue
                bad.append((nm.rsplit('::', 2)[-2] + '::' + tail, t.get('sp')))
        n += 1
        r.check(not bad, '%s / no unwrap' % p_.replace('yarel::', ''),
                '%s - code of a built-in - calls %s: when the value is None / Err for some input the program chose, the host panics instead of raising an error'
                % (p_, ', '.join(sorted({b[0] for b in bad}))), g.loc(bad[0][1]) if bad else g.loc())
    if len(natives) < 40:
        raise Broken(prop, 'floor', 'P14: only %d natives found in core.rs' % len(natives))
