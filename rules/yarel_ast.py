"""A small front end for Yarel source that is *part of the compiled program*: the text of the constant the bootstrap compiles
(class_store::CORE_SOURCE, generated from core.yl by build.rs; its value is taken from the type-checked program, not from the file).
Tokens and grammar follow scanner.rs / compiler.rs for the constructs the core classes may reasonably use; anything else raises
Broken (fail closed: 'cannot decide', never a violation).

AST (plain tuples):
  program  = [decl]
  decl     = ('class', name, attrs, [method]) | ('fn', name, attrs, params, body) | stmt
  method   = ('fn', name, attrs, params, body)
  attrs    = [(name, [arg-identifier])]
  stmt     = ('var', name, expr|None) | ('expr', expr) | ('return', expr|None) | ('if', cond, then, else|None)
           | ('while', cond, body) | ('for', var, iterable, body) | ('block', [stmt]) | ('break',) | ('continue',)
           | ('throw', expr) | ('try', body, (catchvar, catchtype, body)|None, finally|None)
  expr     = ('num', text) | ('str', text) | ('lit', 'nil'|'true'|'false') | ('name', id) | ('self',) | ('Self',)
           | ('super', method) | ('get', obj, name) | ('set', obj, name, value) | ('assign', name, value, op)
           | ('call', callee, [args]) | ('index', obj, idx) | ('setindex', obj, idx, value)
           | ('unary', op, e) | ('binary', op, l, r) | ('and', l, r) | ('or', l, r) | ('vec', [e]) | ('tuple', [e])
           | ('map', [(k, v)]) | ('lambda', params, body-or-expr) | ('range', l, r)
"""
from facts import Broken

KEYWORDS = {'Self', 'catch', 'class', 'else', 'false', 'finally', 'for', 'fn', 'if', 'import', 'as', 'in', 'nil', 'return', 'self',
            'super', 'break', 'continue', 'throw', 'true', 'try', 'var', 'while'}
OPS3 = ['>>=', '<<=']
OPS2 = ['..', '-=', '+=', '/=', '*=', '!=', '==', '>=', '<=', '&=', '|=', '^=', '%=', '>>', '<<', '&&', '||']
OPS1 = list('(){}[],.-+:;/*!=><&|^%~#')


def tokenize(src):
    toks = []
    i, n, line = 0, len(src), 1
    while i < n:
        c = src[i]
        if c == '\n':
            line += 1
            i += 1
        elif c in ' \t\r':
            i += 1
        elif src.startswith('//', i):
            while i < n and src[i] != '\n':
                i += 1
        elif c.isalpha() or c == '_':
            j = i
            while j < n and (src[j].isalnum() or src[j] == '_'):
                j += 1
            w = src[i:j]
            toks.append(('kw' if w in KEYWORDS else 'id', w, line))
            i = j
        elif c.isdigit():
            j = i
            while j < n and src[j].isdigit():
                j += 1
            if j + 1 < n and src[j] == '.' and src[j + 1].isdigit():
                j += 1
                while j < n and src[j].isdigit():
                    j += 1
            toks.append(('num', src[i:j], line))
            i = j
        elif c == '"':
            j = i + 1
            while j < n and src[j] != '"':
                if src[j] == '\\':
                    j += 1
                if src[j] == '$' and j + 1 < n and src[j + 1] == '{':
                    raise Broken('anchor', 'core source: string interpolation is not modelled (line %d)' % line)
                if src[j] == '\n':
                    line += 1
                j += 1
            if j >= n:
                raise Broken('anchor', 'core source: unterminated string')
            toks.append(('str', src[i + 1:j], line))
            i = j + 1
        else:
            for op in OPS3 + OPS2 + OPS1:
                if src.startswith(op, i):
                    toks.append(('op', op, line))
                    i += len(op)
                    break
            else:
                raise Broken('anchor', 'core source: unexpected character %r (line %d)' % (c, line))
    toks.append(('eof', '', line))
    return toks


# binding powers after compiler.rs's Precedence
PREC = {
    '=': 1, '+=': 1, '-=': 1, '*=': 1, '/=': 1, '%=': 1, '&=': 1, '|=': 1, '^=': 1, '>>=': 1, '<<=': 1,
    '||': 2, '&&': 3, '==': 4, '!=': 4, '<': 5, '>': 5, '<=': 5, '>=': 5, '|': 6, '^': 7, '&': 8, '<<': 9, '>>': 9,
    '+': 10, '-': 10, '*': 11, '/': 11, '%': 11, '..': 12,
}
UNARY = 13
CALL = 14


class Parser:
    def __init__(self, src):
        self.t = tokenize(src)
        self.i = 0

    def peek(self, k=0):
        return self.t[min(self.i + k, len(self.t) - 1)]

    def at(self, kind, val=None):
        t = self.peek()
        return t[0] == kind and (val is None or t[1] == val)

    def op(self, v):
        return self.at('op', v)

    def kw(self, v):
        return self.at('kw', v)

    def next(self):
        t = self.t[self.i]
        self.i += 1
        return t

    def expect(self, kind, val=None):
        if not self.at(kind, val):
            t = self.peek()
            raise Broken('anchor', 'core source: expected %s %r, found %r (line %d)' % (kind, val, t[1], t[2]))
        return self.next()

    def accept(self, kind, val):
        if self.at(kind, val):
            self.next()
            return True
        return False

    # ---- declarations -------------------------------------------------------------------------------------------------------
    def program(self):
        out = []
        while not self.at('eof'):
            out.append(self.declaration())
        return out

    def attributes(self):
        attrs = []
        while self.op('#'):
            self.next()
            self.expect('op', '[')
            while True:
                name = self.expect('id')[1]
                args = []
                if self.accept('op', '('):
                    while not self.op(')'):
                        t = self.next()
                        if t[0] not in ('id', 'kw', 'num', 'str'):
                            raise Broken('anchor', 'core source: attribute argument %r (line %d)' % (t[1], t[2]))
                        args.append(t[1])
                        if not self.accept('op', ','):
                            break
                    self.expect('op', ')')
                attrs.append((name, args))
                if not self.accept('op', ','):
                    break
            self.expect('op', ']')
        return attrs

    def declaration(self):
        attrs = self.attributes()
        if self.kw('class'):
            self.next()
            name = self.expect('id')[1]
            self.expect('op', '{')
            methods = []
            while not self.op('}'):
                mattrs = self.attributes()
                self.expect('kw', 'fn')
                methods.append(self.function(mattrs))
            self.expect('op', '}')
            return ('class', name, attrs, methods)
        if self.kw('fn'):
            self.next()
            return self.function(attrs)
        if attrs:
            raise Broken('anchor', 'core source: attributes on a statement')
        return self.statement()

    def function(self, attrs):
        name = self.expect('id')[1]
        self.expect('op', '(')
        params = self.params(')')
        self.expect('op', ')')
        body = self.block()
        return ('fn', name, attrs, params, body)

    def params(self, closer):
        ps = []
        while not self.op(closer):
            t = self.next()
            if t[0] == 'kw' and t[1] == 'self':
                ps.append('self')
            elif t[0] == 'id':
                ps.append(t[1])
            else:
                raise Broken('anchor', 'core source: parameter %r (line %d)' % (t[1], t[2]))
            if not self.accept('op', ','):
                break
        return ps

    def block(self):
        self.expect('op', '{')
        out = []
        while not self.op('}'):
            if self.at('eof'):
                raise Broken('anchor', 'core source: unterminated block')
            out.append(self.declaration())
        self.expect('op', '}')
        return ('block', out)

    # ---- statements ---------------------------------------------------------------------------------------------------------
    def statement(self):
        if self.kw('var'):
            self.next()
            name = self.expect('id')[1]
            init = None
            if self.accept('op', '='):
                init = self.expression()
            self.expect('op', ';')
            return ('var', name, init)
        if self.kw('return'):
            self.next()
            e = None
            if not self.op(';'):
                e = self.expression()
            self.expect('op', ';')
            return ('return', e)
        if self.kw('if'):
            self.next()
            c = self.expression()
            th = self.block()
            el = None
            if self.accept('kw', 'else'):
                el = self.statement() if self.kw('if') else self.block()
            return ('if', c, th, el)
        if self.kw('while'):
            self.next()
            c = self.expression()
            return ('while', c, self.block())
        if self.kw('for'):
            self.next()
            v = self.expect('id')[1]
            self.expect('kw', 'in')
            it = self.expression()
            return ('for', v, it, self.block())
        if self.op('{'):
            return self.block()
        if self.kw('break') or self.kw('continue'):
            k = self.next()[1]
            self.expect('op', ';')
            return (k,)
        if self.kw('throw'):
            self.next()
            e = self.expression()
            self.expect('op', ';')
            return ('throw', e)
        if self.kw('try'):
            self.next()
            body = self.block()
            catch = fin = None
            if self.accept('kw', 'catch'):
                ctype = self.expression()
                self.expect('kw', 'as')
                cvar = self.expect('id')[1]
                catch = (cvar, ctype, self.block())
            if self.accept('kw', 'finally'):
                fin = self.block()
            return ('try', body, catch, fin)
        if self.kw('import') or self.kw('class') or self.kw('fn'):
            t = self.peek()
            raise Broken('anchor', 'core source: %s is not modelled here (line %d)' % (t[1], t[2]))
        e = self.expression()
        self.expect('op', ';')
        return ('expr', e)

    # ---- expressions --------------------------------------------------------------------------------------------------------
    def expression(self, min_prec=1):
        left = self.prefix(min_prec <= 1)
        while True:
            t = self.peek()
            if t[0] != 'op':
                break
            o = t[1]
            if o in ('(', '.', '['):
                if min_prec > CALL:
                    break
                left = self.postfix(left, min_prec <= 1)
                continue
            p = PREC.get(o)
            if p is None or p < min_prec:
                break
            if p == 1:
                if o == '=':
                    break       # plain assignment is handled where the target is parsed
                self.next()
                rhs = self.expression(1)
                left = self.compound(left, o[:-1], rhs)
                continue
            self.next()
            right = self.expression(p + 1)
            if o == '&&':
                left = ('and', left, right)
            elif o == '||':
                left = ('or', left, right)
            elif o == '..':
                left = ('range', left, right)
            else:
                left = ('binary', o, left, right)
        return left

    def compound(self, target, o, rhs):
        if target[0] == 'name':
            return ('assign', target[1], ('binary', o, target, rhs), o)
        if target[0] == 'get':
            return ('set', target[1], target[2], ('binary', o, target, rhs))
        if target[0] == 'index':
            return ('setindex', target[1], target[2], ('binary', o, target, rhs))
        raise Broken('anchor', 'core source: compound assignment to %s' % target[0])

    def postfix(self, left, can_assign):
        if self.accept('op', '('):
            args = []
            while not self.op(')'):
                args.append(self.expression())
                if not self.accept('op', ','):
                    break
            self.expect('op', ')')
            return ('call', left, args)
        if self.accept('op', '.'):
            name = self.expect('id')[1]
            if can_assign and self.op('=') :
                self.next()
                return ('set', left, name, self.expression())
            return ('get', left, name)
        self.expect('op', '[')
        idx = self.expression()
        self.expect('op', ']')
        if can_assign and self.op('='):
            self.next()
            return ('setindex', left, idx, self.expression())
        return ('index', left, idx)

    def prefix(self, can_assign):
        t = self.next()
        k, v, line = t
        if k == 'num':
            return ('num', v)
        if k == 'str':
            return ('str', v)
        if k == 'id':
            if can_assign and self.op('='):
                self.next()
                return ('assign', v, self.expression(), '')
            return ('name', v)
        if k == 'kw':
            if v in ('nil', 'true', 'false'):
                return ('lit', v)
            if v == 'self':
                return ('self',)
            if v == 'Self':
                return ('Self',)
            if v == 'super':
                self.expect('op', '.')
                return ('super', self.expect('id')[1])
        if k == 'op':
            if v == '(':
                e = self.expression()
                self.expect('op', ')')
                return e
            if v in ('!', '-', '~'):
                return ('unary', v, self.expression(UNARY))
            if v == '[':
                es = []
                while not self.op(']'):
                    es.append(self.expression())
                    if not self.accept('op', ','):
                        break
                self.expect('op', ']')
                return ('vec', es)
            if v == '{':
                kvs = []
                while not self.op('}'):
                    kk = self.expression()
                    self.expect('op', ':')
                    kvs.append((kk, self.expression()))
                    if not self.accept('op', ','):
                        break
                self.expect('op', '}')
                return ('map', kvs)
            if v in ('|', '||'):
                ps = []
                if v == '|':
                    ps = self.params('|')
                    self.expect('op', '|')
                body = self.block() if self.op('{') else self.expression()
                return ('lambda', ps, body)
        raise Broken('anchor', 'core source: unexpected %r (line %d)' % (v, line))


def parse(src):
    return Parser(src).program()


def walk(node, fn):
    """pre-order over every tuple node of an AST"""
    if isinstance(node, tuple):
        fn(node)
        for x in node[1:]:
            walk(x, fn)
    elif isinstance(node, list):
        for x in node:
            walk(x, fn)
